#!/bin/bash
# mkseed.sh <round-tag> <PROP>...
TAG=$1; shift
for p in "$@"; do
  git -C /repo worktree add -q --detach /tmp/${TAG}_$p HEAD && mkdir -p /tmp/${TAG}_${p}_out
  python3 - "$TAG" "$p" <<'PY'
import json, sys
tag, pid = sys.argv[1], sys.argv[2]
tpl=open('/verif/harness/seed_prompt.txt').read()
for l in open('/verif/properties.jsonl'):
    d=json.loads(l)
    if d['id']==pid:
        open(f"/tmp/{tag}_{pid}_out/property.json","w").write(json.dumps(d,indent=1))
        p=tpl.replace('{WT}',f"/tmp/{tag}_{pid}").replace('{OUT}',f"/tmp/{tag}_{pid}_out").replace('{ID}',d['id']).replace('{TITLE}',d['title']).replace('{STATEMENT}',d['statement']).replace('{QUANT}',d['quantifier']['text'])
        open(f"/tmp/{tag}_{pid}_out/prompt.txt","w").write(p)
PY
done
