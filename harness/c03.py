"""C03 — control-flow reconstruction restores the source nesting exactly.

Structured programs (if, if-else, repeat while, repeat with up/down, repeat with ... in, exit repeat, simple statements carrying unique
markers) are compiled by the Lean scheme (2-byte forward jumps 93/95 relative to the opcode's own address, 1-byte back jump 54, exit
repeat = jump to the address after the back jump, `repeat with ... in` through peek/count/getAt/pop 3), decompiled by the real code, and the
text is read back by the Lean reference reader.
  D per handler: read-back tree == source tree (every statement once, in order, in the same construct, same condition / loop variable /
  bounds); recompiled bytecode == original; number of raw `jz` / `jump` pseudo-statement lines == 0.
Exhaustive: every skeleton with <= 3 compound constructs and bodies of 0..1 items, every skeleton with <= 2 compound constructs and bodies
of 0..2 items (quick); <= 5 / one-item, <= 4 / 0..1 items and <= 3 / two-item bodies (thorough); every legal exit-repeat position.
Protocol look-alikes: `repeat while` loops whose init / comparison / step (or `1 <= count(l)` / `getAt(l, 1)`) resemble `repeat with`
(`repeat with ... in`), all combinations; exactly the one combination that is byte-identical to a `repeat with` is expected back in
the canonical form (lean/Drx/Spec/Supported.lean `isWithLike`), all others must stay `repeat while` (F134-F136, fixed).
"""
import json, os, random
from core import Case, canon, Failure
import lingo_gen as L
from lingo_gen import S, sx

PROP = "C03"
LEAN_MODULES = ["DrxProps.C03", "DrxProps.C03b", "DrxProps.C03Link", "DrxProps.C03Link2"]
FAMILIES = ["lspec", "lscr"]
RULE = ("skeletons are enumerated exhaustively (see docstring) with unique markers in every simple statement, condition and bound; "
        "programs are compiled by the Lean scheme and the nesting tree read back from the real decompiler's text must equal the source "
        "tree. The structural classes of the open findings F23-F25, F126, F138 are predicted from the SOURCE tree (lingo_gen.c03_classes) and "
        "the check verifies on every run that predicted-failing == observed-failing on the whole enumeration: a failing program outside "
        "the classes is a violation, a passing program inside them is reported (coverage.class_prediction).")
TRUSTED = ["lean/Drx/Spec/Compile.lean layout (compileStructured) — validated on the 7 control-flow fixtures by scheme_validation (C02 evidence)",
           "lean/Drx/Spec/LingoRead.lean", "harness/lingo_gen.py skeleton enumeration"]
ASSUMPTIONS = ["loop bodies fit the one-byte back jump (the scheme rejects longer ones: coverage.rejected_by_scheme)",
               "exit repeat only inside loops"]


def script_of(handlers, pre=(), kind="skel"):
    return dict(tree=["script", ["factory", "-"], ["props"], ["globals"]] + handlers, pre=list(pre), kind=kind)


GROUP = 16     # scripts per case (one driver call per case in impl; every script is still decompiled on its own)


def build_cases(scripts, group=GROUP):
    lines = [L.gen_line(sx(s["tree"]), s.get("pre", ()), 0) for s in scripts]
    outs = L.ask_parallel(lines)
    # canonical forms of the handlers that contain the repeat-while spelling of a repeat-with (one batched driver call)
    cn = []
    for s in scripts:
        for h in s["tree"][4:]:
            hc = h[:3] + L.c03_canon(h[3:])
            if hc != h:
                cn.append(sx(hc))
    cn = sorted(set(cn))
    canon_sx = dict(zip(cn, L.ask_parallel([f"lspec hcanon {L.hexs(c)}" for c in cn]))) if cn else {}
    units, rejected = [], 0
    for s, o in zip(scripts, outs):
        g = L.parse_gen(o)
        if "error" in g:
            rejected += 1
            continue
        handlers = s["tree"][4:]
        hn = "(handlers" + "".join(" " + L.sx_name(h[1]) for h in handlers) + ")"
        lines_c, expect = [], []
        for h, (hsx, hcode) in zip(handlers, g["handlers"]):
            hh = L.hexs(sx(h))
            hc = h[:3] + L.c03_canon(h[3:])
            if hc != h:
                # the repeat-while spelling of a repeat-with: the expected tree is the canonical one, the expected CODE stays the
                # source's own (so the comparison of the recompiled read-back also checks that the two spellings are byte-identical)
                hsx = canon_sx[sx(hc)]
                lines_c.append(f"lspec hcanon {L.hexs(sx(hc))}"); expect.append(hsx)
            else:
                lines_c.append(f"lspec hcanon {hh}"); expect.append(hsx)
            lines_c.append(f"lspec hcode {L.hexs(g['names_sx'])} {L.hexs(hn)} {hh}"); expect.append(hcode)
            lines_c.append("lspec const 0"); expect.append("0")
        unit = dict(script=sx(s["tree"]), lscr=g["lscr"], lnam=g["lnam"], names_sx=g["names_sx"], nhandlers=len(handlers),
                    classes=[L.c03_classes(h[3:]) for h in handlers], withlike=[L.c03_has_withlike(h[3:]) for h in handlers],
                    proploop=[L.c03_prop_loop_classes(h[3:]) for h in handlers],
                    skel=s.get("skel"), hsx=[sx(h) for h in handlers])
        units.append((s.get("kind", "skel"), unit, lines_c, expect))
    cases = []
    by_kind = {}
    for u in units:
        by_kind.setdefault(u[0], []).append(u)
    for kind, us in by_kind.items():
        for i in range(0, len(us), group):
            part = us[i:i + group]
            lines_c, expect, index = [], [], []
            for si, (_, unit, ls, ex) in enumerate(part):
                for li in range(len(ls)):
                    index.append([si, li // 3])
                lines_c += ls; expect += ex
            # correspondence of the MODEL of the decompiler (family lscr) on the same scripts: the text the real code emits must be
            # the text the model emits, inside and outside the open failure classes (a behaviour change that hides behind an open
            # finding still breaks this)
            for _, unit, _ls, _ex in part:
                lines_c.append(f"lscr lingo {unit['lscr'] or '-'} {unit['lnam'] or '-'}"); expect.append(None)
            cases.append(Case(kind=kind, spec=dict(scripts=[u[1] for u in part], index=index), lines=lines_c, expect=expect))
    return cases, rejected


def skeleton_scripts(kmax, maxlen, kind, skip_dead=False, sample=None, rng=None, empties=False):
    """exit-free skeletons are batched 8 per script; skeletons with an exit repeat get a script of their own"""
    free, withx = [], []
    for sk in L.skeletons(kmax, maxlen, empties):
        if skip_dead and has_dead_code(sk):
            continue
        (withx if L.skel_has_exit(sk) else free).append(sk)
    if sample is not None and len(withx) > sample:
        withx = rng.sample(withx, sample)
    scripts = []
    for i in range(0, len(free), 8):
        hs = [L.skel_handler(sk, "h%d" % j) for j, sk in enumerate(free[i:i + 8])]
        scripts.append(dict(script_of(hs, kind=kind), skel=[L.skel_str(sk) for sk in free[i:i + 8]]))
    for sk in withx:
        scripts.append(dict(script_of([L.skel_handler(sk, "h0")], kind=kind + "-exit"), skel=[L.skel_str(sk)]))
    return scripts


def clean_exit_scripts(rng, n):
    """random skeletons WITH `exit repeat` that lie OUTSIDE every known failure class (F23-F25, F126, F138): only these can show a
    regression of the exit-repeat reconstruction — inside a class the program fails anyway and a new failure would be attributed
    to the open finding. Exits are placed where the heuristic handles them (last item of an `if` without else, second-to-last
    statement of a branch); the surrounding shape (siblings before / after, nesting in either branch, loop kind) is random.
    One handler per script. (Seeded change C03-m7 showed only on such programs.)"""
    out, tries = [], 0
    def body(depth, in_loop, lo=1):
        k = rng.choice([1, 1, 2, 2, 3]) if lo else rng.choice([0, 1, 2])
        return tuple(item(depth, in_loop) for _ in range(k))
    def item(depth, in_loop):
        c = rng.random()
        if depth <= 0 or c < 0.3:
            return "s"
        if c < 0.55:
            b = body(depth - 1, in_loop)
            if in_loop and rng.random() < 0.45:
                b = b[:rng.randrange(len(b) + 1)] + ("x",)            # exit as the last item of an if without else
            return ("if", b)
        if c < 0.75:
            t, e = body(depth - 1, in_loop), body(depth - 1, in_loop)
            if in_loop and rng.random() < 0.3:
                t = t[:-1] + ("x", "s") if rng.random() < 0.5 else t    # second-to-last of a then branch
            return ("ifelse", t, e)
        return (rng.choice(L.LOOPS), body(depth - 1, True))
    while len(out) < n and tries < 40 * n:
        tries += 1
        sk = tuple([item(rng.choice([2, 3, 4]), False) for _ in range(rng.choice([1, 2, 3]))])
        if not L.skel_has_exit(sk) or has_dead_code(sk):
            continue
        h = L.skel_handler(sk, "h0")
        if L.c03_classes(h[3:]):
            continue
        out.append(dict(script_of([h], kind="clean-exit"), skel=[L.skel_str(sk)]))
    return out


def condition_form_scripts(tier, with_starts=False):
    """conditions of every expression FORM (not only `c < n`): every binary operator (the method-style ones & && contains starts
    included) x eight kinds of left operand (variable, integer, float, string, unary minus, not, infix operation, call, list) x three
    right operands, as the condition of an if, an if-else and a repeat while (finding F160: a JavaScript condition that merely
    STARTS with a parenthesis was emitted without its own)"""
    lefts = [["l", "c"], ["i", 1], ["f", 15, 1], ["s", S("ab")], ["u", "neg", ["l", "c"]], ["u", "not", ["l", "c"]],
             ["b", "add", ["l", "c"], ["i", 1]], ["c", "random", ["i", 9]], ["li", ["i", 1], ["i", 2]]]
    rights = [["i", 2], ["l", "x"], ["b", "mul", ["l", "x"], ["i", 3]]]
    ops = [o for o in L.BINOPS if o != "starts" or with_starts]      # `starts`: open finding F40 of C02 (the Lingo text prints `start`)
    hs, out, k = [], [], 0
    for op in ops:
        for a in lefts:
            for b in (rights[:2] if tier == "quick" else rights):
                cnd = ["b", op, a, b]
                k += 1
                put = lambda n: ["call", "put", ["i", n]]
                shape = k % 3
                if shape == 0:
                    hs.append([["if", cnd, [put(1)], []], put(2)])
                elif shape == 1:
                    hs.append([["if", cnd, [put(1)], [put(2)]]])
                else:
                    hs.append([["while", cnd, put(1)], put(2)])
    for u in ("neg", "not"):
        for a in lefts:
            hs.append([["if", ["u", u, a], [["call", "put", ["i", 1]]], []], ["while", ["u", u, a], ["call", "put", ["i", 2]]]])
    for a in lefts:
        hs.append([["if", a, [["call", "put", ["i", 1]]], []], ["while", a, ["call", "put", ["i", 2]]]])
    for i in range(0, len(hs), 8):
        out.append(script_of([["on", "h%d" % j, ["a"]] + b for j, b in enumerate(hs[i:i + 8])], kind="condition-forms"))
    return out


def trailing_empty_scripts(tier):
    """a branch or body that ENDS with an EMPTY compound statement, immediately followed by every kind of statement: the last
    instruction of the branch is then a raw conditional jump with offset 3 (or a loop's back jump), not a statement -- the place
    where a scan for `the jump over the else branch` looks (seeded change C03-m1 of round 14: JzOperation made a JumpOperation).
    Outer construct x what precedes the empty one x the empty construct x what follows, all combinations."""
    put = lambda n: ["call", "put", ["i", n]]
    c = lambda n: ["b", "lt", ["l", "c"], ["i", n]]
    empties = [lambda: ["if", c(3), [], []], lambda: ["while", c(3)], lambda: ["with", ["l", "i"], ["i", 1], ["i", 3], "up"], lambda: ["in", ["l", "x"], ["l", "lst"]]]
    follows = [lambda: [["if", c(4), [put(5)], []]], lambda: [["if", c(4), [put(5)], [put(6)]]], lambda: [["while", c(4), put(5)]], lambda: [put(5)], lambda: [],
               lambda: [["if", c(4), [], []]], lambda: [["if", c(4), [put(5)], []], put(7)]]
    befores = [lambda: [], lambda: [put(2)], lambda: [["if", c(8), [put(9)], []]]]
    hs = []
    for e in empties:
        for f in follows:
            for b in befores:
                inner = b() + [e()]
                hs.append([["if", c(1), inner, []]] + f())                       # if without else
                hs.append([["if", c(1), inner, [put(6)]]] + f())                 # then-branch of an if-else
                hs.append([["if", c(1), [put(6)], inner]] + f())                 # else branch
                hs.append([["while", c(1)] + inner] + f())                       # loop body
                hs.append([["if", c(1), [["if", c(2), inner, []]], []]] + f())   # two levels
    if tier == "quick":
        hs = hs[::2] + hs[1::8]
    out = []
    for i in range(0, len(hs), 8):
        out.append(script_of([["on", "h%d" % j, ["a"]] + b for j, b in enumerate(hs[i:i + 8])], kind="trailing-empty"))
    return out


def scale_scripts(tier):
    """beyond the small bounds: loop bodies made of the SHORTEST statements (`set b = 0` is 3 bytes: up to 84 of them fit the one-byte
    back jump, far more than the 20-34 `put` calls of long_body_scripts), and if / else parts just below and above 32 768 bytes (the
    forward jump offset needs its top bit)"""
    out = []
    z = lambda: ["set", ["l", "b"], ["i", 0]]
    for k in (60, 63, 64, 65, 70, 80, 82, 83, 84):
        for loop in (["while", ["b", "eq", ["l", "a"], ["i", 1]]], ["with", ["l", "i1"], ["i", 1], ["i", 9], "up"], ["in", ["l", "i1"], ["l", "lst"]]):
            out.append(script_of([["on", "h0", []] + [["call", "put", ["i", 1]], loop + [z() for _ in range(k)], ["call", "put", ["i", 2]]]], kind="scale-short-statements"))
    put = lambda i: ["call", "put", ["i", i % 100]]
    for n in ((5460, 5461, 5462, 5470) if tier != "quick" else (5461, 5462)):
        body = [put(i) for i in range(n)]
        out.append(script_of([["on", "h0", []] + [["if", ["b", "lt", ["l", "c"], ["i", 1]], body, []], put(1)]], kind="scale-32k-then"))
        out.append(script_of([["on", "h0", []] + [["if", ["b", "lt", ["l", "c"], ["i", 1]], [put(2)], body], put(1)]], kind="scale-32k-else"))
    return out


def property_loop_scripts(tier):
    """loop variables of every KIND in property scripts and factories: local, parameter, global and DECLARED PROPERTY (open findings
    F151 / F152: the last is printed `accessor` / not recognised), for repeat with ... to / down to / in, alone, nested and after
    another loop"""
    out = []
    put = lambda v: ["call", "put", v]
    for kind in ("props", "factory"):
        for v in (["r", "score"], ["l", "i"], ["p", "a"], ["g", "gIdx"]):
            hs = []
            hs.append([["with", v, ["i", 1], ["i", 5], "up", put(v)]])
            hs.append([["with", v, ["i", 9], ["i", 1], "down", put(v)], put(["i", 2])])
            hs.append([["in", v, ["li", ["i", 1], ["i", 2]], put(v)]])
            hs.append([["while", ["b", "lt", v, ["i", 3]], ["with", v, ["i", 1], ["i", 5], "up", put(v)], ["in", v, ["l", "lst"], put(v)]]])
            hs.append([["if", ["b", "lt", ["l", "c"], ["i", 1]], [["in", v, ["l", "lst"], put(["i", 1])]], [["with", v, ["i", 1], ["i", 2], "up", put(["i", 2])]]]])
            tree = ["script", ["factory", "makeIt" if kind == "factory" else "-"], ["props", "score"], ["globals", "gIdx"]] + \
                [[("method" if kind == "factory" else "on"), ("mL%d" % j if kind == "factory" else "h%d" % j), ["a"]] + b for j, b in enumerate(hs)]
            if kind == "factory":
                tree = tree[:4] + [["method", "mnew", [], ["set", ["r", "score"], ["i", 0]]]] + tree[4:]
            out.append(dict(tree=tree, pre=[], kind="loop-variable-kinds"))
    return out


def has_dead_code(items):
    for i, it in enumerate(items):
        if it == "x" and i < len(items) - 1:
            return True
        if not isinstance(it, str) and any(has_dead_code(b) for b in it[1:]):
            return True
    return False


# ---------------------------------------------------------------------------------------------- random deeper / wider programs

class RandCF:
    def __init__(self, rng):
        self.rng = rng
        self.n = 0
        self.loops = 0

    def num(self):
        self.n += 1
        return self.n

    def simple(self, env):
        r = self.rng
        c = r.random()
        if c < 0.5:
            return ["call", "put", ["i", self.num()]]
        if c < 0.7:
            return ["set", ["l", r.choice(env["locals"])], ["b", "add", ["l", r.choice(env["locals"])], ["i", self.num()]]]
        if c < 0.8:
            return ["call", "doIt", ["s", S("m%d" % self.num())], ["l", r.choice(env["locals"])]]
        if c < 0.9:
            return ["set", ["g", "gCount"], ["i", self.num()]]
        return ["put", "after", ["i", self.num()], ["l", r.choice(env["locals"])]]

    def cond(self, env):
        r = self.rng
        c = r.random()
        v = ["l", r.choice(env["locals"])]
        if c < 0.5:
            return ["b", r.choice(["lt", "gt", "eq", "ne", "le", "ge"]), v, ["i", self.num()]]
        if c < 0.7:
            return ["c", "objectp", v, ["i", self.num()]]
        if c < 0.8:
            return ["b", "and", ["b", "gt", v, ["i", self.num()]], ["u", "not", ["g", "gCount"]]]
        if c < 0.9:
            return ["key", "mouseDown"] if r.random() < 0.5 else ["b", "eq", ["key", "key"], ["s", S("k%d" % self.num())]]
        return ["u", "not", ["c", "soundBusy", ["i", self.num()]]]

    def body(self, env, depth, in_loop, width, allow_exit=True):
        r = self.rng
        n = r.choice(width)
        out = []
        for _ in range(n):
            c = r.random()
            if depth > 0 and c < 0.45:
                out.append(self.compound(env, depth - 1, in_loop, width, allow_exit))
            elif in_loop and allow_exit and c < 0.52:
                out.append("exitrep")
            else:
                out.append(self.simple(env))
        if getattr(self, "empty_ok", False):
            return out
        return out or [self.simple(env)]

    def compound(self, env, depth, in_loop, width, allow_exit):
        r = self.rng
        k = r.choice(["if", "if", "ifelse", "ifelse", "while", "up", "down", "in"] + (["tell"] if getattr(self, "tells", False) else []))
        if k == "tell":
            # a tell block is transparent for the control structure: its statements keep their own conditions and loops (F137)
            return ["tell", ["c", "window", ["s", S("w%d" % self.num())]]] + self.body(env, depth, in_loop, width, allow_exit)
        if k == "if":
            return ["if", self.cond(env), self.body(env, depth, in_loop, width, allow_exit), []]
        if k == "ifelse":
            t = self.body(env, depth, in_loop, width, allow_exit)
            e = self.body(env, depth, in_loop, width, allow_exit)
            return ["if", self.cond(env), t, e or [self.simple(env)]]     # an empty else branch IS the if without else
        self.loops += 1
        v = r.choice([["l", "i%d" % self.loops], ["l", "i%d" % self.loops], ["g", "gIdx"], ["p", "a"]])
        b = self.body(env, depth, True, width, allow_exit)
        if k == "while":
            return ["while", self.cond(env)] + b
        if k == "up":
            return ["with", v, r.choice([["i", 1], ["l", env["locals"][0]]]), r.choice([["i", self.num() + 10], ["b", "sub", ["l", env["locals"][0]], ["i", 1]]]), "up"] + b
        if k == "down":
            return ["with", v, ["i", self.num() + 10], ["i", 1], "down"] + b
        return ["in", v, r.choice([["li", ["i", self.num()], ["i", 2]], ["l", env["locals"][-1]], ["c", "getList", ["i", self.num()]]])] + b


def random_scripts(rng, n, allow_exit_ratio=0.5):
    out = []
    for i in range(n):
        g = RandCF(rng)
        g.tells = rng.random() < 0.3
        nh = rng.choice([1, 1, 2, 3])
        hs = []
        allow_exit = rng.random() < allow_exit_ratio
        for j in range(nh):
            env = dict(locals=["c", "x", "lst"])
            depth = rng.choice([2, 3, 4, 6])
            width = rng.choice([[1, 2], [1, 2, 3], [1, 2, 3, 5], [2, 4, 8] if depth <= 3 else [1, 2]])
            body = g.body(env, depth, False, width, allow_exit)
            hs.append(["on", "h%d" % j, ["a"]] + body)
        kind = "random-exit" if allow_exit else "random-exitfree"
        if allow_exit and nh > 1:
            hs = hs[:1]           # handlers that may raise stay alone
        out.append(script_of(hs, pre=L.name_table(rng) if rng.random() < 0.3 else (), kind=kind))
    return out


def long_body_scripts(rng, n):
    """loop bodies near the 255-byte back-jump limit (the scheme rejects longer ones)"""
    out = []
    for i in range(n):
        g = RandCF(rng)
        k = rng.choice([20, 26, 28, 30, 32, 34])
        body = [["call", "put", ["i", g.num()]] for _ in range(k)]
        if rng.random() < 0.5:
            body.insert(rng.randrange(len(body)), ["if", ["b", "lt", ["l", "c"], ["i", g.num()]], [["call", "put", ["i", g.num()]]], []])
        loop = rng.choice([["while", ["b", "ne", ["l", "c"], ["i", g.num()]]] + body,
                           ["with", ["l", "i1"], ["i", 1], ["i", 9], "up"] + body,
                           ["in", ["l", "i1"], ["l", "lst"]] + body])
        out.append(script_of([["on", "h0", []] + [["call", "put", ["i", g.num()]], loop, ["call", "put", ["i", g.num()]]]], kind="long-body"))
    return out


def protocol_scripts(rng, tier):
    """`repeat while` loops whose first / last statements resemble the protocols of `repeat with` (init, comparison, step) and of
    `repeat with ... in` (1 <= count(l), getAt(l, 1)): every combination of the ingredients below. Exactly one combination per loop
    variable is byte-identical to a `repeat with` (expected read-back: the canonical form); all others must stay `repeat while`."""
    g = RandCF(rng)
    put = lambda: ["call", "put", ["i", g.num()]]
    out = []
    hs = []
    def flush(kind):
        nonlocal hs
        for i in range(0, len(hs), 8):
            out.append(script_of([["on", "h%d" % j, ["a"]] + b for j, b in enumerate(hs[i:i + 8])], kind=kind))
        hs = []
    vars_ = [["l", "i"], ["g", "gIdx"], ["p", "a"]] if tier == "quick" else [["l", "i"], ["g", "gIdx"], ["p", "a"], ["l", "x"]]
    other = ["l", "j"]
    steps = [["i", 1], ["i", 2], ["i", 7], ["i", 0], ["i", 255], ["u", "neg", ["i", 1]], ["l", "k"], ["f", 10, 1]]
    for v in vars_:
        for op in ["le", "lt", "ge", "gt", "eq", "ne"]:
            for st in steps:
                for form in ["k+v", "v+k", "k-v", "k+w", "w=k+v"]:
                    for wrap in ["top", "if", "loop"]:
                        if tier == "quick" and wrap != "top" and (op not in ("le", "ge") or form != "k+v"):
                            continue
                        for extra in [0, 1]:
                            inc = {"k+v": ["set", v, ["b", "add", st, v]], "v+k": ["set", v, ["b", "add", v, st]],
                                   "k-v": ["set", v, ["b", "sub", st, v]], "k+w": ["set", v, ["b", "add", st, other]],
                                   "w=k+v": ["set", other, ["b", "add", st, v]]}[form]
                            loop = ["while", ["b", op, v, ["i", g.num() + 10]]] + [put() for _ in range(extra)] + [inc]
                            seq = [["set", v, ["i", 1]], loop]
                            if wrap == "if":
                                seq = [["if", ["b", "lt", ["l", "c"], ["i", g.num()]], seq, []]]
                            elif wrap == "loop":
                                seq = [["while", ["b", "ne", ["l", "c"], ["i", g.num()]]] + seq]
                            hs.append(seq)
    # init variants: no init, init of another variable, init not adjacent, condition with the variable on the right
    for v in vars_:
        inc = ["set", v, ["b", "add", ["i", 1], v]]
        loopc = lambda: ["while", ["b", "le", v, ["i", g.num() + 10]], put(), inc]
        hs.append([loopc()])
        hs.append([["set", other, ["i", 1]], loopc()])
        hs.append([["set", v, ["i", 1]], put(), loopc()])
        hs.append([["set", v, ["i", 1]], ["while", ["b", "ge", ["i", g.num() + 10], v], put(), inc]])
        hs.append([["set", v, ["i", 1]], ["while", ["b", "le", v, ["i", g.num() + 10]], inc, put()]])
        hs.append([["set", v, ["i", 1]], ["while", ["b", "le", v, ["i", g.num() + 10]], put(), inc, "exitrep"]])
        hs.append([["set", v, ["i", 1]], ["while", ["b", "le", v, ["i", g.num() + 10]], ["if", ["b", "lt", ["l", "c"], ["i", g.num()]], ["exitrep"], []], inc]])
        hs.append([["set", v, ["i", 1]], ["while", ["b", "le", v, ["i", g.num() + 10]], inc], ["set", v, ["i", 1]], loopc()])
        hs.append([["set", v, ["b", "add", v, ["i", 1]]], loopc()])
        if v[0] == "l":
            hs.append([["put", "after", ["i", 1], v], loopc()])
        hs.append([["set", v, ["i", 1]], ["with", v, ["i", 1], ["i", g.num() + 10], "up", put()]])
        hs.append([["set", v, ["i", 1]], ["while", ["b", "le", v, ["i", g.num() + 10]], ["with", other, ["i", 1], ["i", 3], "up", put()], inc]])
    flush("protocol-with")
    # repeat with ... in
    lists = [["l", "lst"], ["g", "gList"], ["p", "a"], ["li", ["i", 1], ["i", 2]], ["c", "getList", ["i", 3]]]
    x = ["l", "x"]
    for l in lists:
        for k in [1, 2, 0]:
            for op in ["le", "lt", "ge"]:
                for first in ["getAt-l-1", "getAt-l-2", "getAt-m-1", "none", "second", "other-fn", "swapped"]:
                    for extra in [0, 1]:
                        if tier == "quick" and (k, op) != (1, "le") and first not in ("getAt-l-1", "none"):
                            continue
                        m = ["l", "lst2"]
                        fst = {"getAt-l-1": [["set", x, ["c", "getAt", l, ["i", 1]]]], "getAt-l-2": [["set", x, ["c", "getAt", l, ["i", 2]]]],
                               "getAt-m-1": [["set", x, ["c", "getAt", m, ["i", 1]]]], "none": [],
                               "second": [put(), ["set", x, ["c", "getAt", l, ["i", 1]]]],
                               "other-fn": [["set", x, ["c", "getaProp", l, ["i", 1]]]],
                               "swapped": [["set", x, ["c", "getAt", ["i", 1], l]]]}[first]
                        body = fst + [put() for _ in range(extra)]
                        hs.append([["while", ["b", op, ["i", k], ["c", "count", l]]] + body])
        hs.append([["in", x, l, ["set", x, ["c", "getAt", l, ["i", 1]]], put()]])
        hs.append([["in", x, l, ["while", ["b", "le", ["i", 1], ["c", "count", l]], ["set", x, ["c", "getAt", l, ["i", 1]]], put()]]])
        hs.append([["in", x, l]])
    flush("protocol-in")
    # property script: the list / loop variable is a declared property
    return out


def empty_body_scripts(rng, n):
    """random programs in which every body (then, else when the then-branch is not the only content, loops, tell) may be empty"""
    out = []
    for i in range(n):
        g = RandCF(rng)
        g.empty_ok = True
        env = dict(locals=["c", "x", "lst"])
        allow_exit = rng.random() < 0.3
        body = g.body(env, rng.choice([2, 3, 4]), False, [0, 1, 1, 2], allow_exit)
        out.append(script_of([["on", "h0", ["a"]] + body], kind="empty-bodies" + ("-exit" if allow_exit else "")))
    return out


PROBES = {
    "f23_exit_directly_in_loop": ["on", "probe", [], ["while", ["b", "ne", ["l", "c"], ["i", 1]], ["call", "put", ["i", 2]], "exitrep"]],
    "f24_if_after_exit_if": ["on", "probe", [], ["while", ["b", "ne", ["l", "c"], ["i", 1]], ["if", ["b", "lt", ["l", "c"], ["i", 2]], ["exitrep"], []],
                                                ["if", ["b", "lt", ["l", "c"], ["i", 3]], [["call", "put", ["i", 4]]], []]]],
    "f25_exit_is_else_branch": ["on", "probe", [], ["while", ["b", "ne", ["l", "c"], ["i", 1]],
                                                   ["if", ["b", "gt", ["l", "c"], ["i", 2]], [["call", "put", ["i", 3]]], ["exitrep"]]]],
    "f126_exit_first_of_three_in_then": ["on", "probe", [], ["while", ["b", "ne", ["l", "c"], ["i", 1]],
                                                           ["if", ["b", "lt", ["l", "c"], ["i", 2]], ["exitrep", ["call", "put", ["i", 3]], ["call", "put", ["i", 4]]], []]]],
}


_put = lambda n: ["call", "put", ["i", n]]
_i, _x, _l = ["l", "i"], ["l", "x"], ["l", "lst"]
PROBES.update({
    "f133_empty_then_branch": ["on", "probe", [], ["if", ["b", "lt", ["l", "c"], ["i", 2]], [], []]],
    "f134_step_7_is_not_repeat_with": ["on", "probe", [], ["set", _i, ["i", 1]], ["while", ["b", "le", _i, ["i", 5]], _put(1), ["set", _i, ["b", "add", ["i", 7], _i]]]],
    "f135_gt_is_not_repeat_with": ["on", "probe", [], ["set", _i, ["i", 1]], ["while", ["b", "gt", _i, ["i", 5]], _put(1), ["set", _i, ["b", "add", ["i", 1], _i]]]],
    "f136_getAt_1_is_not_repeat_in": ["on", "probe", [], ["while", ["b", "le", ["i", 1], ["c", "count", _l]], ["set", _x, ["c", "getAt", _l, ["i", 1]]], _put(1)]],
    "withlike_canonical_form": ["on", "probe", [], ["set", _i, ["i", 1]], ["while", ["b", "le", _i, ["i", 5]], _put(1), ["set", _i, ["b", "add", ["i", 1], _i]]]],
    "f138_exit_directly_in_tell": ["on", "probe", [], ["while", ["b", "ne", ["l", "c"], ["i", 1]], ["if", ["b", "lt", ["l", "c"], ["i", 2]],
                                   [["tell", ["c", "window", ["s", S("a")]], "exitrep", _put(3)]], []]]],
    "f137_if_and_loop_inside_tell": ["on", "probe", [], ["tell", ["c", "window", ["s", S("a")]], ["if", ["b", "lt", ["l", "c"], ["i", 2]], [_put(1)], [_put(2)]],
                                      ["with", _i, ["i", 1], ["i", 3], "up", ["tell", ["c", "window", ["s", S("b")]], ["if", ["b", "lt", ["l", "c"], ["i", 4]], ["exitrep"], []]], _put(3)]]],
    "empty_bodies_everywhere": ["on", "probe", [], ["if", ["b", "lt", ["l", "c"], ["i", 2]], [], [["while", ["b", "lt", ["l", "c"], ["i", 3]]]]],
                                ["with", _i, ["i", 1], ["i", 5], "up"], ["in", _x, _l], ["with", _i, ["i", 5], ["i", 1], "down", ["if", ["b", "lt", ["l", "c"], ["i", 4]], [], []]]],
})


def mkcorpus():
    from core import VERIF
    d = VERIF / "corpus" / "C03"
    d.mkdir(parents=True, exist_ok=True)
    for k, h in PROBES.items():
        cs, _ = build_cases([script_of([h], kind="corpus-" + k)])
        c = cs[0]
        (d / (k + ".json")).write_text(json.dumps(dict(case=dict(kind=c.kind, spec=c.spec, lines=c.lines, expect=c.expect)), indent=1))
    print("wrote", len(PROBES), "replays to", d)


def cases(rng, tier):
    scripts = []
    if tier == "quick":
        scripts += skeleton_scripts(3, 1, "skel-k3-len01", empties=True)          # bodies of 0..1 items (superset of 1..1)
        scripts += skeleton_scripts(2, 2, "skel-k2-len02", empties=True)
        scripts += [s for s in skeleton_scripts(3, 2, "skel-k3-len2-sample", skip_dead=True, sample=1500, rng=rng) if s["kind"].endswith("exit")]
        scripts += random_scripts(rng, 500) + long_body_scripts(rng, 30)
        scripts += protocol_scripts(rng, tier) + empty_body_scripts(rng, 300)
        scripts += clean_exit_scripts(rng, 600)
        scripts += condition_form_scripts(tier)
        scripts += scale_scripts(tier)
        scripts += property_loop_scripts(tier)
        scripts += trailing_empty_scripts(tier)
    else:
        scripts += skeleton_scripts(5, 1, "skel-k5-len1")
        scripts += skeleton_scripts(4, 1, "skel-k4-len01", empties=True)
        scripts += skeleton_scripts(3, 2, "skel-k3-len2", skip_dead=True)
        scripts += skeleton_scripts(2, 2, "skel-k2-len02", empties=True)
        scripts += random_scripts(rng, 20000 if tier == "thorough" else 8000) + long_body_scripts(rng, 300)
        scripts += protocol_scripts(rng, tier) + empty_body_scripts(rng, 6000)
        scripts += clean_exit_scripts(rng, 20000 if tier == "thorough" else 8000)
        scripts += condition_form_scripts(tier)
        scripts += scale_scripts(tier)
        scripts += property_loop_scripts(tier)
        scripts += trailing_empty_scripts(tier)
    # corpus replays are single-script cases (core prepends them)
    cs, rejected = build_cases(scripts)
    cases.rejected = rejected
    cases.last = cs
    return cs


# ---------------------------------------------------------------------------------------------- the real code

def impl(case):
    import re
    units = case["spec"]["scripts"]
    texts = []
    for sp in units:
        try:
            texts.append(L.decompile(L.B(sp["lscr"]), L.B(sp["lnam"]))["lingo"])
        except Exception:
            texts.append(None)
    idx = [i for i, t in enumerate(texts) if t is not None]
    rts = dict(zip(idx, L.ask([L.rt_line(texts[i], units[i]["names_sx"], 0) for i in idx])))
    out = []
    for i, sp in enumerate(units):
        n = 3 * sp["nhandlers"]
        if texts[i] is None:
            out += [canon("error")] * n
            continue
        r = L.parse_rt(rts[i])
        if "error" in r:
            out += ["unreadable:" + r["error"][:60]] * n
            continue
        chunks = re.split(r"\n(?=on |method )", "\n" + texts[i])
        chunks = [c for c in chunks if c.lstrip().startswith(("on ", "method "))]
        for h in range(sp["nhandlers"]):
            raw = sum(1 for l in (chunks[h].split("\n") if h < len(chunks) else []) if l.strip() in ("jz", "jump") or l.strip().startswith(("jz ", "jump ")))
            if h < len(r["handlers"]):
                out += [r["handlers"][h][0], r["handlers"][h][1], str(raw)]
            else:
                out += ["missing", "missing", str(raw)]
    if len(case["lines"]) == len(out) + len(texts):        # corpus replays predate the model lines
        out += [canon(t if t is not None else "error") for t in texts]
    return out


def nontrivial(case, io):
    return not any(x in ('"error"', "missing") or x.startswith("unreadable") for x in io)


def _classes(case, f):
    if f.line is None or f.line >= len(case["spec"]["index"]):
        return None
    si, hi = case["spec"]["index"][f.line]
    u = case["spec"]["scripts"][si]
    return list(u["classes"][hi]) + list((u.get("proploop") or [[]] * (hi + 1))[hi])


def m_class(case, f, params):
    """the failing handler's SOURCE tree contains the structural configuration params['cls'] (lingo_gen.c03_classes)"""
    cl = _classes(case, f)
    return cl is not None and params["cls"] in cl


MATCHERS = {"c03_class": m_class}


def extra_stage(ctx, driver, stats):
    """predicted-failing == observed-failing on everything that was run: the classes are exact, not merely sufficient"""
    stats["rejected_by_scheme"] = getattr(cases, "rejected", 0)
    failing = set()
    for f in ctx.failures:
        if f.stage == "D" and f.case is not None and f.line is not None and f.line < len(f.case["spec"]["index"]):
            si, hi = f.case["spec"]["index"][f.line]
            failing.add((f.case["spec"]["scripts"][si]["script"], hi))
    pred_fail = pred_pass = unpred_fail = ok = 0
    stale = []
    for c in getattr(cases, "last", []):
      for u in c.spec["scripts"]:
        for i, cl in enumerate(u["classes"]):
            cl = list(cl) + list((u.get("proploop") or [[]] * (i + 1))[i])
            bad = (u["script"], i) in failing
            if cl and bad:
                pred_fail += 1
            elif cl and not bad:
                pred_pass += 1
                if len(stale) < 5:
                    stale.append((u.get("skel") or [u["script"][:200]])[min(i, len(u.get("skel") or [1]) - 1)])
            elif bad:
                unpred_fail += 1
            else:
                ok += 1
    # the Lean predicate `exitClasses` (domain of C03_partial, lean/Drx/Spec/Supported.lean) must agree with the matcher side
    hs = [(u, i) for c in getattr(cases, "last", []) for u in c.spec["scripts"] for i in range(u["nhandlers"])]
    outs = L.ask_parallel(["lspec classes " + L.hexs(u["hsx"][i]) for u, i in hs])
    lean_disagree = 0
    for (u, i), o in zip(hs, outs):
        want = ",".join(sorted(u["classes"][i]) + (["withlike"] if u.get("withlike", [False] * (i + 1))[i] else [])
                        + (["proploop"] if (u.get("proploop") or [[]] * (i + 1))[i] else [])) or "-"
        if o != want:
            lean_disagree += 1
            if lean_disagree <= 3:
                ctx.failures.append(Failure("C", None, None, f"Lean Supported predicate disagrees with the matcher: lean={o} python={want} on {u['hsx'][i][:300]}"))
    ctx.cov["supported_predicate"] = dict(handlers=len(hs), lean_vs_matcher_disagreements=lean_disagree,
                                          repeat_while_spelling_of_repeat_with=sum(1 for u, i in hs if u.get("withlike", [False] * (i + 1))[i]))
    ctx.cov["class_prediction"] = dict(handlers_reconstructed_exactly=ok, in_class_and_failing=pred_fail, in_class_but_exact=pred_pass,
                                       failing_outside_every_class=unpred_fail, in_class_but_exact_examples=stale)
    if pred_pass:
        ctx.notes.append(f"{pred_pass} handlers inside a known failure class reconstructed exactly: the class descriptions are stale (the code got better)")
    stats["exhaustive"] = 1


def oracle(case, impl_out):
    """a handler inside a failure class that nevertheless reconstructs exactly means the class description is stale (not a violation);
    it is counted through the notes of the evidence. A handler OUTSIDE every class that fails is reported by the normal D comparison."""
    return None


if __name__ == "__main__":
    import core, sys
    if sys.argv[1:2] == ["mkcorpus"]:
        import logging; logging.disable(logging.CRITICAL)
        mkcorpus(); sys.exit(0)
    sys.exit(core.main("c03"))
