"""Stage G translator for the cast readers (property C15): walks the Python `ast` of
   drxtract/cast/{image,textinput,button,shape,text,transition,sound,palette,script}.py  <Class>.parse
   drxtract/cast/cast.py  parse_cast_data_struct_dir4 / parse_cast_data_struct_dir5 / parse_basic_cast_data (fixed prefix)
symbolically tracking the running index, and emits every read of the buffer as a `Drx.Layout.Field` (name, offset, width, signed):

    x = struct.unpack(">h", buf[idx:idx+2])[0]        (also wrapped: f(struct.unpack(...)[0]))
    x = int(buf[idx]) / buf[idx] / int(int(buf[idx])/2) / int(buf[idx]) - 1        one unsigned byte
    idx = 0, idx += <const>
    if len(buf) > N: <reads>                           -> a guarded tail (separate list + the constant N)
    if <test>: <no reads, no index change> [elif/else] -> skipped (value post-processing)
    if <test>: ...; raise                              -> skipped (validation)
    if <test>: return                                  -> skipped (early exit before any read)

The fixed prefix of the three cast.py functions ends at the first loop or the first index change by a non-constant amount.
Everything else REFUSES (raises `Refuse`): a read whose offset is not a constant, two reads in one statement, a read after a guarded
tail, big-endian prefix missing, an index change inside a skipped `if`, a loop in a `parse` body, an unknown statement form.
The generic translator harness/gen_layouts.py is used for its format table only (its API is unchanged).
"""
import ast
from pathlib import Path
from core import REPO
from gen_common import lean_str
from gen_layouts import FMT, Refuse


class BareSlice(Refuse):
    pass


def _is_buf(node, buf):
    return isinstance(node, ast.Name) and node.id == buf


def _idx_value(node, env):
    """constant value of an index expression over constants and tracked index variables; None if not constant"""
    if isinstance(node, ast.Constant) and type(node.value) is int:
        return node.value
    if isinstance(node, ast.Name):
        return env.get(node.id)
    if isinstance(node, ast.BinOp) and isinstance(node.op, (ast.Add, ast.Sub)):
        a, b = _idx_value(node.left, env), _idx_value(node.right, env)
        if a is None or b is None:
            return None
        return a + b if isinstance(node.op, ast.Add) else a - b
    return None


def _reads_in(expr, buf, env):
    """all reads of `buf` inside an expression: list of (offset, width, signed); `len(buf)` is not a read"""
    reads, claimed = [], set()
    for n in ast.walk(expr):
        # struct.unpack(">h", buf[a:b])[0]
        if isinstance(n, ast.Call) and isinstance(n.func, ast.Attribute) and n.func.attr == "unpack":
            if not (isinstance(n.func.value, ast.Name) and n.func.value.id == "struct" and len(n.args) == 2):
                raise Refuse("unpack call form")
            f, s = n.args
            if not (isinstance(f, ast.Constant) and isinstance(f.value, str) and f.value[:1] == ">" and len(f.value) == 2 and f.value[1] in FMT):
                raise Refuse(f"format {ast.dump(f)[:60]} (only single big-endian fields are expected in cast readers)")
            if not (isinstance(s, ast.Subscript) and _is_buf(s.value, buf) and isinstance(s.slice, ast.Slice) and s.slice.step is None
                    and s.slice.lower is not None and s.slice.upper is not None):
                raise Refuse("unpack argument is not buf[a:b]")
            lo, hi = _idx_value(s.slice.lower, env), _idx_value(s.slice.upper, env)
            if lo is None or hi is None:
                raise Refuse("non-constant offset of a read")
            w, sg = FMT[f.value[1]]
            if hi - lo != w:
                raise Refuse(f"slice width {hi - lo} does not match format {f.value!r}")
            reads.append((lo, w, sg))
            claimed.add(id(s))
    for n in ast.walk(expr):
        if isinstance(n, ast.Subscript) and _is_buf(n.value, buf) and id(n) not in claimed:
            if isinstance(n.slice, ast.Slice):
                raise BareSlice("bare slice of the buffer in a value expression")
            off = _idx_value(n.slice, env)
            if off is None:
                raise Refuse("non-constant offset of a byte read")
            reads.append((off, 1, False))
    # any other use of the buffer than len(buf) / the reads above?
    uses = [n for n in ast.walk(expr) if _is_buf(n, buf)]
    lens = [n for n in ast.walk(expr) if isinstance(n, ast.Call) and isinstance(n.func, ast.Name) and n.func.id == "len"
            and len(n.args) == 1 and _is_buf(n.args[0], buf)]
    if len(uses) != len(reads) + len(lens):
        raise Refuse("the buffer is used in an unrecognised way")
    return reads


def _touches(stmts, buf, idxvars):
    """does a statement list read the buffer or change an index variable?"""
    for st in stmts:
        for n in ast.walk(st):
            if isinstance(n, ast.Subscript) and _is_buf(n.value, buf):
                return True
            if isinstance(n, (ast.Assign, ast.AugAssign, ast.AnnAssign)):
                tg = n.targets if isinstance(n, ast.Assign) else [n.target]
                if any(isinstance(t, ast.Name) and t.id in idxvars for t in tg):
                    return True
    return False


def _len_guard(test, buf):
    """`len(buf) > N` (possibly parenthesised) -> N"""
    if (isinstance(test, ast.Compare) and len(test.ops) == 1 and isinstance(test.ops[0], ast.Gt)
            and isinstance(test.left, ast.Call) and isinstance(test.left.func, ast.Name) and test.left.func.id == "len"
            and len(test.left.args) == 1 and _is_buf(test.left.args[0], buf)
            and isinstance(test.comparators[0], ast.Constant) and type(test.comparators[0].value) is int):
        return test.comparators[0].value
    return None


class Walk:
    def __init__(self, buf, prefix_mode):
        self.buf, self.prefix_mode = buf, prefix_mode
        self.env = {}            # index variables with a known constant value
        self.fields = []         # (name, off, width, signed)
        self.tail = None         # (guard constant, fields)
        self.stopped = False

    def idxvars(self):
        return set(self.env)

    def stmts(self, body, out):
        for st in body:
            if self.stopped:
                return
            self.stmt(st, out)

    def stmt(self, st, out):
        buf, env = self.buf, self.env
        if isinstance(st, (ast.Expr, ast.Pass)):
            if buf and _reads_in(st, buf, env):
                raise Refuse(f"read in an expression statement at line {st.lineno}")
            return
        if isinstance(st, ast.Return):
            self.stopped = True
            return
        if isinstance(st, (ast.For, ast.While)):
            if self.prefix_mode:
                self.stopped = True
                return
            raise Refuse(f"loop at line {st.lineno}")
        if isinstance(st, ast.AugAssign):
            if isinstance(st.target, ast.Name) and st.target.id in env:
                d = _idx_value(st.value, env)
                if d is None:
                    if self.prefix_mode:
                        self.stopped = True      # index moves by a data-dependent amount: end of the fixed prefix
                        return
                    raise Refuse(f"index changes by a non-constant amount at line {st.lineno}")
                if not isinstance(st.op, (ast.Add, ast.Sub)):
                    raise Refuse("index operator")
                env[st.target.id] += d if isinstance(st.op, ast.Add) else -d
                return
            if buf and _reads_in(st.value, buf, env):
                raise Refuse(f"read in an augmented assignment at line {st.lineno}")
            return
        if isinstance(st, (ast.Assign, ast.AnnAssign)):
            tgts = st.targets if isinstance(st, ast.Assign) else [st.target]
            val = st.value
            if val is None:
                return
            if len(tgts) != 1:
                raise Refuse(f"multiple assignment at line {st.lineno}")
            t = tgts[0]
            try:
                reads = _reads_in(val, buf, env) if buf else []
            except BareSlice:
                if self.prefix_mode:
                    self.stopped = True      # a sub-buffer is cut out with data-dependent bounds: end of the fixed prefix
                    return
                raise
            if len(reads) > 1:
                raise Refuse(f"two reads in one statement at line {st.lineno}")
            if reads:
                if not isinstance(t, ast.Name):
                    raise Refuse(f"read assigned to a non-variable at line {st.lineno}")
                if self.tail is not None and out is self.fields:
                    raise Refuse(f"read after the guarded tail at line {st.lineno}")
                off, w, sg = reads[0]
                out.append((t.id, off, w, sg))
                env.pop(t.id, None)
                return
            if isinstance(t, ast.Name):
                v = _idx_value(val, env)
                if v is not None and (t.id in env or t.id in ("idx", "index", "offset", "indx")):
                    env[t.id] = v
                elif t.id in env:
                    if self.prefix_mode:
                        self.stopped = True
                        return
                    raise Refuse(f"index variable {t.id} set to a non-constant at line {st.lineno}")
            return
        if isinstance(st, ast.If):
            g = _len_guard(st.test, buf) if buf else None
            if g is not None and _touches(st.body, buf, self.idxvars()):
                if self.tail is not None or st.orelse:
                    raise Refuse(f"second guarded section / else branch at line {st.lineno}")
                tail = []
                saved = dict(env)
                self.tail = (g, tail)
                self.stmts(st.body, tail)
                self.env = saved          # reads after the tail would be refused anyway
                self.env["__after_tail__"] = 0
                return
            branches = [st.body, st.orelse]
            if any(_touches(b, buf, self.idxvars()) for b in branches if b):
                if self.prefix_mode:
                    self.stopped = True
                    return
                raise Refuse(f"conditional read or index change at line {st.lineno}")
            return                         # value post-processing / validation / early return before any read
        if isinstance(st, ast.Raise):
            self.stopped = True
            return
        raise Refuse(f"statement {type(st).__name__} at line {st.lineno}")


def _find_func(tree, cls, func):
    for n in ast.walk(tree):
        if cls is None and isinstance(n, ast.FunctionDef) and n.name == func:
            return n
        if cls is not None and isinstance(n, ast.ClassDef) and n.name == cls:
            for m in n.body:
                if isinstance(m, ast.FunctionDef) and m.name == func:
                    return m
    raise Refuse(f"no {cls + '.' if cls else ''}{func}")


def cast_layout(path: Path, cls, func, prefix_mode=False):
    """(fields, tail) of a reader; tail = None or (guard N, fields)"""
    fn = _find_func(ast.parse(path.read_text()), cls, func)
    args = [a.arg for a in fn.args.args if a.arg != "self"]
    if not args:
        raise Refuse("no buffer parameter")
    w = Walk(args[0], prefix_mode)
    w.stmts(fn.body, w.fields)
    return w.fields, w.tail


def lean_fields(name, fields):
    rows = ", ".join(f"⟨{lean_str(n)}, {o}, {wd}, {'true' if sg else 'false'}⟩" for n, o, wd, sg in fields)
    return f"def {name} : List Field := [{rows}]"


READERS = [  # (lean name, file, class)
    ("image", "image.py", "ImageParser"), ("textInput", "textinput.py", "TextInputParser"), ("button", "button.py", "ButtonParser"),
    ("shape", "shape.py", "ShapeParser"), ("text", "text.py", "TextParser"), ("transition", "transition.py", "TransitionParser"),
    ("sound", "sound.py", "SoundParser"), ("palette", "palette.py", "PaletteParser"), ("script", "script.py", "ScriptParser"),
]


def gen_cast_layouts():
    cast = REPO / "drxtract" / "cast"
    L = ["-- GENERATED by harness/gen_cast_layouts.py from drxtract/cast/*.py on every run; do not edit", "import Drx.Layout",
         "namespace Drx.Gen.CastLayouts", "open Drx.Layout", ""]
    for name, file, cls in READERS:
        fields, tail = cast_layout(cast / file, cls, "parse")
        L.append(f"/-- `{cls}.parse` in drxtract/cast/{file} -/")
        L.append(lean_fields(name, fields))
        if tail is not None:
            L.append(f"/-- … the reads under `if len(header_data) > {tail[0]}:` -/")
            L.append(lean_fields(name + "Tail", tail[1]))
            L.append(f"def {name}TailGuard : Nat := {tail[0]}")
        elif name == "image":
            raise Refuse("image.py: the guarded depth/palette tail was not found")
        L.append("")
    for name, func in (("structD4", "parse_cast_data_struct_dir4"), ("structD5", "parse_cast_data_struct_dir5"),
                       ("basicFixed", "parse_basic_cast_data")):
        fields, tail = cast_layout(cast / "cast.py", None, func, prefix_mode=True)
        if tail is not None:
            raise Refuse(f"{func}: unexpected guarded section")
        L.append(f"/-- fixed prefix of `{func}` in drxtract/cast/cast.py (up to the first data-dependent index change or loop) -/")
        L.append(lean_fields(name, fields))
        L.append("")
    L.append("end Drx.Gen.CastLayouts")
    return {"Drx/Gen/CastLayouts.lean": "\n".join(L) + "\n"}


if __name__ == "__main__":
    for k, v in gen_cast_layouts().items():
        print(v)
