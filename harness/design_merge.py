"""Rebuilds the generated tail of DESIGN.md (section 12: per-property build notes, from design.d/*.md) and the tables of section 0.3-0.5."""
import json, re
from pathlib import Path
V = Path(__file__).resolve().parent.parent
D = V / "DESIGN.md"
s = D.read_text()
MARK = "\n<!-- GENERATED TAIL: do not edit below; edit design.d/*.md and run harness/design_merge.py -->\n"
if MARK in s:
    s = s[:s.index(MARK)]
# ---- status table (0.3) from the evidence of the last clean-tree runs
rows = ["", "### 0.3 Status table (generated from evidence/*.json, known_findings.json, seeded/)", "",
        "| property | theorems (obligations = discharged) | cases in the last quick run | open findings | fixed findings | seeded changes kept | last run |",
        "|---|---|---|---|---|---|---|"]
kf0 = json.loads((V / "known_findings.json").read_text())
for ev in sorted((V / "evidence").glob("C*.json")):
    e = json.loads(ev.read_text())
    pid = e["property_id"]
    c = e["coverage"]
    op = sorted({x["id"] for x in kf0 if x.get("property") == pid and x["status"] == "open"})
    fx = sorted({x["id"] for x in kf0 if x.get("property") == pid and x["status"] == "fixed"})
    sd = sorted(d.name for d in (V / "seeded").glob(pid + "-*"))
    rows.append(f"| {pid} | {c.get('discharged')}/{c.get('obligations')} | {c.get('evaluations')} ({c.get('distinct_nontrivial')} distinct non-trivial) | {', '.join(op) or '-'} | {', '.join(fx) or '-'} | {len(sd)} | {e['tier']} {e['wall_s']} s |")
rows.append("")
out = [MARK] + rows + ["\n--------------------------------------------------------------------------------\n",
       "## 12. Per-property build notes (what is modelled, theorem lists, findings, mutations tried)\n",
       "One subsection per property, written by whoever built the check when it landed (sources: `design.d/*.md`).\n"]
for p in sorted((V / "design.d").glob("*.md")):
    t = p.read_text().strip()
    t = re.sub(r"^# ", "### ", t, flags=re.M)
    t = re.sub(r"^## ", "#### ", t, flags=re.M)
    out.append("\n" + t + "\n")
# findings table
kf = json.loads((V / "known_findings.json").read_text())
for p in sorted((V / "known_findings.d").glob("*.json")):
    kf += json.loads(p.read_text())
out.append("\n--------------------------------------------------------------------------------\n\n## 13. Findings register (from known_findings.json)\n")
out.append("| id | property | status | commit | site | what |\n|---|---|---|---|---|---|")
for e in sorted(kf, key=lambda e: (e["id"], e.get("property", ""))):
    out.append(f"| {e['id']} | {e.get('property', ','.join(e.get('properties', [])))} | {e['status']} | {e.get('commit', '')} | `{e.get('site', '')}` | {e['what']} |")
# seeded changes
out.append("\n--------------------------------------------------------------------------------\n\n## 14. Seeded changes (independent sub-agents; `seeded/<id>/`) and which check caught them\n")
out.append("| id | property | change | needs | result |\n|---|---|---|---|---|")
for d in sorted((V / "seeded").glob("*")):
    m = json.loads((d / "meta.json").read_text())
    out.append(f"| {d.name} | {m['property']} | {m['summary']} | {m['needs'][:300]} | {m.get('check_result', '')} |")
D.write_text(s + "\n".join(out) + "\n")
print("DESIGN.md tail rebuilt:", len(list((V / 'design.d').glob('*.md'))), "notes,", len(kf), "findings")
