"""C06 — bitmap decoding reproduces every source pixel for a standard BMP reader; two encodings give identical bytes.

A case = one image (depth, canvas W x H, offsets, pixel matrix) with several encodings of its scan lines (raw, and PackBits
with different scan-line segmentations).  One driver line per encoding:
    bitd c06 <depth> <W> <H> <ox> <oy> <pad> <pixels hex> <enc> <python-encoded data hex>
observable {"enc_ok", "valid", "read_ok", "supported", "bmp"}:
  model side: the LEAN encoder (Spec.serialise) applied to the spec object must reproduce the Python-encoded bytes (enc_ok),
              the model's BMP read by the Lean reader must equal Spec.canvas (read_ok), Spec.supportedB (supported);
  real side:  bitd2bmp on the Python-encoded bytes, read by the independent Python BMP reader (bitd_spec.read_bmp), compared
              with bitd_spec.canvas (read_ok); `supported` = the complement of the open findings' matchers.
C compares the two observables (so also: Lean reader/canvas vs Python reader/canvas, Supported vs matchers);
D (oracle): every encoding inside the property's quantifier must have read_ok, and all encodings of one image identical bytes.
A second stream feeds truncated / random data to `bitd decode` (model vs implementation only).
"""
import json, sys, random
from core import Case, canon, hx
import bitd_spec as S
import bitd_gen

PROP = "C06"
HAS_SEARCH_TIER = True
LEAN_MODULES = ["DrxProps.C06"]
FAMILIES = ["bitd"]
MODEL_REPRODUCES_KNOWN_FINDINGS = True      # the model is of the code that exists: see core.main, stage K
RULE = ("images: every canvas width 1..40 x (H, top offset) in {(1,0),(2,0),(3,1),(2,1)} x left offset 0..5 for 1- and 8-bit, each raw "
        "and under several scan-line PackBits segmentations (one op per line, op per byte, alignment byte in its own op, random "
        "cuts; runs where bytes repeat, literals otherwise; alignment bits/bytes 0, 0xFF or random); every segmentation of short "
        "lines over a 3-value alphabet (sampled in quick); planar 16/32-bit images (ops confined to a plane, plus straddling "
        "ops and non-zero offsets = open findings); larger random images. Expected: the BMP read back by an independent reader "
        "equals the canvas, and all encodings of an image give identical bytes. distinct_nontrivial = distinct images with at "
        "least one encoding that decoded to a readable BMP.")
TRUSTED = ["harness/bitd_spec.py: Python scan-line layouts, PackBits encoder, BMP reader, canvas (independent of /repo)",
           "lean/Drx/BitdSpec.lean: the same in Lean (trusted by definition; cross-checked against the Python side on every case)",
           "correspondence is sampled over the stated grids"]
ASSUMPTIONS = ["spec images: 0 <= offsets <= canvas size, (W+1)(H+1)*4 + 2000 < 2^31; negative offsets as separate cases (enlarged canvas); width, height >= 0", "system palette (custom palettes are exercised in C13/C14)",
               "PackBits header 0x80 (129 copies, reserved in the format) is not generated", "logging ignored"]


def gen_tables():
    return bitd_gen.gen_bitd_tables()


# ---------------------------------------------------------------------------------------------- spec objects -> lines

def pix_hex(img):
    d = img["depth"]
    b = bytearray()
    for r in img["pix"]:
        for v in r:
            if d in (1, 8): b.append(v)
            elif d == 16: b += bytes([v >> 8, v & 0xFF])
            else: b += bytes(v)
    return hx(bytes(b))


def enc_tok(enc):
    if enc == "raw":
        return "raw"
    rows = []
    for ops in enc:
        rows.append("+".join(("l:" + o[1]) if o[0] == "lit" else ("r:%d:%d" % (o[1], o[2])) for o in ops) if ops else ".")
    return "/".join(rows) if rows else "."


def enc_bytes(img, pad, enc):
    return b"".join(S.raw_rows(img, pad)) if enc == "raw" else S.serialise_packed(enc)


def line_of(img, pad, enc):
    return "bitd c06 %d %d %d %d %d %d %s %s %s" % (img["depth"], img["W"], img["H"], img["ox"], img["oy"], pad, pix_hex(img),
                                                    enc_tok(enc), hx(enc_bytes(img, pad, enc)))


def parse_line(line):
    t = line.split()
    depth, W, H, ox, oy, pad = map(int, t[2:8])
    B = lambda s: bytes.fromhex("" if s == "-" else s)
    pb = B(t[8])
    w, h = W - ox, H - oy
    k = {1: 1, 8: 1, 16: 2, 32: 4}[depth]
    pix = []
    for j in range(h):
        row = pb[j * w * k:(j + 1) * w * k]
        if depth in (1, 8): pix.append(list(row))
        elif depth == 16: pix.append([(row[2 * i] << 8) | row[2 * i + 1] for i in range(w)])
        else: pix.append([list(row[4 * i:4 * i + 4]) for i in range(w)])
    img = dict(depth=depth, W=W, H=H, ox=ox, oy=oy, pix=pix)
    if t[9] == "raw":
        enc = "raw"
    else:
        enc = []
        for r in t[9].split("/"):
            ops = []
            if r != ".":
                for o in r.split("+"):
                    f = o.split(":")
                    ops.append(["lit", f[1]] if f[0] == "l" else ["run", int(f[1]), int(f[2])])
            enc.append(ops)
    return img, pad, enc, B(t[10])


def valid_enc(img, pad, enc):
    if enc == "raw":
        return True
    rows = S.raw_rows(img, pad)
    if len(enc) != len(rows):
        return False
    for ops, r in zip(enc, rows):
        for o in ops:
            n = len(bytes.fromhex(o[1])) if o[0] == "lit" else o[1]
            if not ((1 <= n <= 128) if o[0] == "lit" else (2 <= n <= 128)):
                return False
        if S.unpack_ops(ops) != r:
            return False
    return True


def straddles(img, enc):
    w = S.iw(img)
    for ops in enc:
        pos = 0
        for o in ops:
            n = len(S.op_expand(o))
            if pos < w < pos + n:
                return True
            pos += n
    return False


def supported(img, enc):
    """mirror of Spec.supportedB (lean/Drx/BitdSpec.lean) = complement of the open finding F34"""
    if not ((img["W"] + 1) * (img["H"] + 1) * 4 + 2000 < 2 ** 31):
        return False
    if img["depth"] in (1, 8):
        return True
    return enc != "raw"                                                   # F34: raw 16/32-bit storage


def in_quantifier(img, pad, enc, data):
    """valid encoding; a packed stream of exactly the raw length is indistinguishable from raw data by construction of the format"""
    if not valid_enc(img, pad, enc):
        return False
    return enc == "raw" or len(data) != S.raw_len(img)


# ---------------------------------------------------------------------------------------------- generators

def rand_img(rng, depth, W, H, ox, oy, alphabet=None):
    w, h = W - ox, H - oy
    if depth == 1: f = lambda: rng.randrange(2)
    elif depth == 8: f = (lambda: rng.choice(alphabet)) if alphabet else (lambda: rng.choice([rng.randrange(256), rng.randrange(1, 4), 0xFF]))
    elif depth == 16: f = lambda: rng.choice([rng.randrange(65536), 0x0101 * rng.randrange(1, 3), 0x7C00])
    else: f = lambda: rng.choice([[rng.randrange(256) for _ in range(4)], [0, 5, 5, 5], [255, 9, 9, 7]])
    return dict(depth=depth, W=W, H=H, ox=ox, oy=oy, pix=[[f() for _ in range(w)] for _ in range(h)])


def seg_cuts(rng, row, kind, nb_pix_bytes):
    n = len(row)
    if kind == "one" or n <= 1: return []
    if kind == "bytes": return list(range(1, n))
    if kind == "padown": return [c for c in {nb_pix_bytes, n - 1} if 0 < c < n]
    return sorted(set(rng.randrange(1, n) for _ in range(rng.randrange(1, 5))))


def plane_cuts(img):
    w = S.iw(img)
    return [w * i for i in range(1, 2 if img["depth"] == 16 else 4)] if img["depth"] in (16, 32) else []


def encodings(rng, img, pad, kinds, confined=True):
    """[(name, enc)]: raw (1/8 bit, and 16/32 as a known finding) + packed segmentations"""
    rows = S.raw_rows(img, pad)
    d, w = img["depth"], S.iw(img)
    nbp = (w + 7) // 8 if d == 1 else w
    out = []
    for k in kinds:
        if k == "raw":
            out.append(("raw", "raw"))
            continue
        enc = []
        for r in rows:
            cuts = seg_cuts(rng, r, k, nbp)
            if confined:
                cuts = sorted(set(cuts) | set(c for c in plane_cuts(img) if 0 < c < len(r)))
            enc.append(S.seg_to_ops(r, cuts, prefer_run=(k != "lits")))
        out.append((k, enc))
    return out


def image_case(rng, img, pad, kinds, kind="image", confined=True):
    encs = encodings(rng, img, pad, kinds, confined)
    lines = [line_of(img, pad, e) for _, e in encs]
    spec = dict(depth=img["depth"], W=img["W"], H=img["H"], ox=img["ox"], oy=img["oy"], pad=pad, encs=[n for n, _ in encs])
    return Case(kind=kind, spec=spec, lines=lines, expect=[None] * len(lines))


GEO_H = [(1, 0), (2, 0), (3, 1), (2, 1)]


def grid_cases(rng, tier):
    out = []
    maxox = 5 if tier == "quick" else 17
    for depth in (1, 8):
        for W in range(1, 41):
            for ox in range(0, min(maxox, W) + 1):
                hs = GEO_H
                for (H, oy) in hs:
                    pad = rng.choice([0, 0xFF, rng.randrange(256)])
                    img = rand_img(rng, depth, W, H, ox, oy)
                    out.append(image_case(rng, img, pad, ["raw", "one", "bytes", "padown", "rand", "lits"], kind="grid-%d" % depth))
    return out


def all_cutsets(n):
    for m in range(1 << max(0, n - 1)):
        yield [i + 1 for i in range(n - 1) if m >> i & 1]


def short_row_cases(rng, tier):
    """every segmentation of lines of <= 6 bytes over a 3-value alphabet (8-bit: bytes = pixels; 1-bit: bytes of bits)"""
    out = []
    budget = 2500 if tier == "quick" else 10 ** 9
    combos = []
    for depth in (8, 1):
        for nbytes in range(1, 7):
            for ox in (0, 1, 3):
                combos.append((depth, nbytes, ox))
    for depth, nbytes, ox in combos:
        if depth == 8:
            ws = [nbytes] if nbytes % 2 == 0 else [nbytes]           # odd widths get an alignment byte (line = nbytes+1)
        else:
            ws = [8 * nbytes - 3, 8 * nbytes] if nbytes % 2 == 0 else [8 * nbytes - 5]
        for w in ws:
            W = w + ox
            if depth == 8:
                img = rand_img(rng, 8, W, 2, ox, 0, alphabet=[0, 7, 0xFE])
            else:
                img = rand_img(rng, 1, W, 2, ox, 0)
                # three byte values only: all-zero, all-one, alternating
                for r in img["pix"]:
                    for i in range(0, len(r), 8):
                        v = rng.choice([[0] * 8, [1] * 8, [1, 0] * 4])
                        r[i:i + 8] = v[:len(r[i:i + 8])]
            pad = rng.choice([0, 0xFF, 0xAA])
            rows = S.raw_rows(img, pad)
            L = len(rows[0])
            cs = list(all_cutsets(L))
            if tier == "quick" and len(cs) > 16:
                cs = rng.sample(cs, 16)
            encs = [("raw", "raw")]
            for c in cs:
                for pr in (True, False):
                    encs.append(("cuts%s%s" % (c, "" if pr else "-lit"), [S.seg_to_ops(r, c, prefer_run=pr) for r in rows]))
            # split into cases of <= 9 encodings (raw first in each, for the identity clause)
            for i in range(1, len(encs), 8):
                part = [encs[0]] + encs[i:i + 8]
                lines = [line_of(img, pad, e) for _, e in part]
                spec = dict(depth=depth, W=W, H=2, ox=ox, oy=0, pad=pad, encs=[n for n, _ in part])
                out.append(Case(kind="short-rows-%d" % depth, spec=spec, lines=lines, expect=[None] * len(lines)))
    if len(out) > budget:
        out = rng.sample(out, budget)
    return out


def planar_cases(rng, n):
    out = []
    for i in range(n):
        depth = rng.choice([16, 32])
        W = rng.choice([1, 2, 3, 4, 5, 7, 8, rng.randrange(1, 41)])
        H = rng.choice([1, 2, 3, rng.randrange(1, 6)])
        r = rng.random()
        ox = oy = 0
        confined = True
        kinds = ["one", "bytes", "rand", "lits"]
        kind = "planar-%d" % depth
        if r < 0.25 and W > 1:
            ox = rng.randrange(1, W); oy = rng.randrange(0, H); kind += "-offset"
        elif r < 0.35 and H > 1:
            oy = rng.randrange(1, H); kind += "-offset"
        elif r < 0.5:
            confined = False; kind += "-straddle"
        elif r < 0.56:
            kinds = ["raw", "one"]; kind += "-raw"
        img = rand_img(rng, depth, W, H, ox, oy)
        out.append(image_case(rng, img, 0, kinds, kind=kind, confined=confined))
    # 32-bit streams of exactly 2*w*h bytes (one run per plane, W = 4): the decoder's raw test used to fire (F93, fixed)
    for H in (1, 2, 3):
        img = dict(depth=32, W=4, H=H, ox=0, oy=0, pix=[[[5, 6, 7, 8]] * 4 for _ in range(H)])
        enc = [[["run", 4, 5], ["run", 4, 6], ["run", 4, 7], ["run", 4, 8]] for _ in range(H)]
        enc2 = [[["run", 4, 5], ["run", 4, 6], ["run", 4, 7], ["run", 2, 8], ["run", 2, 8]] for _ in range(H)]
        lines = [line_of(img, 0, enc), line_of(img, 0, enc2)]
        out.append(Case(kind="planar-32-rawlen", spec=dict(depth=32, W=4, H=H, ox=0, oy=0, pad=0, encs=["runs", "runs2"]), lines=lines, expect=[None, None]))
    return out


def large_cases(rng, n):
    out = []
    for _ in range(n):
        depth = rng.choice([1, 8, 8, 16, 32])
        W = rng.choice([63, 64, 65, 127, 128, 129, 130, 257, rng.randrange(41, 400)])
        if depth in (16, 32):
            W = min(W, 140)
        H = rng.randrange(1, 12)
        ox = rng.choice([0, 0, 1, 15, 16, 17, rng.randrange(0, W)])
        oy = rng.choice([0, 0, 1, rng.randrange(0, H)])
        ox = min(ox, W - 1)
        img = rand_img(rng, depth, W, H, ox, oy)
        kinds = (["raw"] if depth in (1, 8) else []) + ["one", "rand"]
        out.append(image_case(rng, img, rng.choice([0, 0xFF]), kinds, kind="large-%d" % depth))
    return out


def malformed_cases(rng, n):
    """model vs implementation only: truncated / corrupted / random data through `bitd decode`"""
    import c13
    out = []
    for _ in range(n):
        depth = rng.choice([1, 8, 16, 32, 8, 1])
        W = rng.randrange(1, 12); H = rng.randrange(1, 4)
        ox = rng.choice([0, 0, rng.randrange(-3, W + 2)]); oy = rng.choice([0, 0, rng.randrange(-2, H + 2), -1])
        r = rng.random()
        if r < 0.5 and ox < W and 0 <= oy < H:
            img = rand_img(rng, depth, W, H, ox, oy)
            rows = S.raw_rows(img, rng.randrange(256))
            data = bytearray(S.serialise_packed([S.seg_to_ops(x, seg_cuts(rng, x, "rand", 1)) for x in rows]))
            m = rng.random()
            if m < 0.4 and data:
                data = data[:rng.randrange(len(data))]
            elif m < 0.8 and data:
                for _ in range(rng.randrange(1, 4)):
                    data[rng.randrange(len(data))] = rng.choice([0x80, 0xFF, 0x7F, 0, rng.randrange(256)])
            else:
                data += bytes(rng.randrange(256) for _ in range(rng.randrange(1, 6)))
            data = bytes(data)
            ox, oy = img["ox"], img["oy"]
        else:
            data = bytes(rng.choice([0x80, 0xFF, 0x81, 0, 1, 2, 0x7F, rng.randrange(256)]) for _ in range(rng.choice([0, 1, 2, 3, rng.randrange(0, 40)])))
        c = c13.call(depth, W, H, ox, oy, data)
        out.append(Case(kind="malformed", spec=dict(depth=depth, W=W, H=H, ox=ox, oy=oy, data=data.hex()),
                        lines=["bitd decode " + c13.tok(c), "bitd steps " + c13.tok(c), "bitd decodefast " + c13.tok(c)], expect=[None, None, None]))
    return out


def negoff_cases(rng, tier):
    """negative registration offsets: the record declares a canvas smaller than the image; the result must be the image on the
    enlarged canvas, byte for byte what the normalised request (offset 0, enlarged canvas) gives"""
    import c13
    out = []
    ks = range(1, 6) if tier == "quick" else range(1, 18)
    for depth in (1, 8, 16, 32):
        for Wn in range(1, 14 if tier == "quick" else 41):
            for k in ks:
                for (Hn, kt) in ((1, 0), (2, 0), (3, 1), (2, 2)):
                    if k > Wn or kt > Hn:
                        continue
                    img = rand_img(rng, depth, Wn, Hn, 0, 0)          # the image on its own canvas
                    pad = rng.choice([0, 0xFF])
                    for name, enc in encodings(rng, img, pad, (["raw"] if depth in (1, 8) else []) + ["one", "rand"], confined=False):
                        data = enc_bytes(img, pad, enc)
                        if enc != "raw" and len(data) == S.raw_len(img):
                            continue
                        neg = c13.call(depth, Wn - k, Hn - kt, -k, -kt, data)
                        norm = c13.call(depth, Wn, Hn, 0, 0, data)
                        spec = dict(depth=depth, W=Wn, H=Hn, ox=-k, oy=-kt, pad=pad, enc=name, pix=pix_hex(img), packed=(enc != "raw"))
                        out.append(Case(kind="negoff-%d" % depth, spec=spec,
                                        lines=["bitd decode " + c13.tok(neg), "bitd decode " + c13.tok(norm), "bitd decodefast " + c13.tok(neg)],
                                        expect=[None, None, None]))
    if tier == "quick" and len(out) > 800:
        out = rng.sample(out, 800)
    return out


def cases(rng, tier):
    n = dict(quick=(900, 200, 2500), thorough=(10000, 5000, 20000), search=(3000, 1000, 0))[tier]
    out = grid_cases(rng, tier)
    out += short_row_cases(rng, tier)
    out += planar_cases(rng, n[0])
    out += large_cases(rng, n[1])
    out += negoff_cases(rng, tier)
    out += malformed_cases(rng, n[2])
    return out


# ---------------------------------------------------------------------------------------------- real code

def impl(case):
    import importlib
    m = importlib.import_module("drxtract.bitd.bitd2bmp")
    out = []
    for line in case["lines"]:
        t = line.split()
        if t[1] in ("decode", "decodefast"):
            import c13
            out.append(canon(c13.run_call(m, c13.untok(t[2]))))
            continue
        if t[1] == "steps":
            # loop rounds of the real code (C10 support): compared with the Lean counting twin
            import c13
            c = c13.untok(t[2])
            cd = dict(height=c["H"], width=c["W"], depth=c["depth"], w_padding=c["ox"], h_padding=c["oy"], palette_txt=c["pal"])
            r = S.real_loop_rounds(cd, c["clut"], c["data"])
            out.append(canon(r) if r is not None else None)
            continue
        img, pad, enc, data = parse_line(line)
        try:
            bmp = bytes(m.bitd2bmp(S.cast_data(img), b"", data))
        except Exception:
            bmp = None
        read_ok = False
        if bmp is not None:
            try:
                w, h, bpp, rows = S.read_bmp(bmp)
                read_ok = (rows == S.canvas(img))
            except S.BmpError:
                read_ok = False
        out.append(canon({"enc_ok": True, "fast_ok": True, "valid": valid_enc(img, pad, enc), "read_ok": read_ok, "supported": supported(img, enc),
                          "bmp": bmp.hex() if bmp is not None else "error"}))
    return out


def f30b(img):
    return img["depth"] == 8 and img["W"] % 4 == 0 and (img["W"] - img["ox"]) % 2 == 1


def failures_of(case, io_):
    """[(tag, text, claimed_by)] for one case; claimed_by = id of the open finding whose class contains the failing input"""
    res = []
    parsed = []
    for li, (line, o) in enumerate(zip(case["lines"], io_)):
        if not line.startswith("bitd c06 "):
            continue
        img, pad, enc, data = parse_line(line)
        j = json.loads(o)
        parsed.append((li, img, pad, enc, data, j))
        if not in_quantifier(img, pad, enc, data):
            continue
        if (classify(img, enc, data) is None) != supported(img, enc):
            res.append(("enc#%d" % li, "the Supported predicate and the union of the finding classes are not complementary on this input", None))
        if supported(img, enc) and j["bmp"] != "error":
            exp = S.expected_bmp(img, enc != "raw", S.repo_palette(img["depth"], "black and white" if img["depth"] == 1 else "systemMac"))
            if j["bmp"] != exp.hex():
                res.append(("enc#%d" % li, "the BMP bytes differ from the byte string the C06 theorems state (header ++ rows bottom-up at the 4-byte stride)", None))
        if not j["read_ok"]:
            res.append(("enc#%d" % li, "encoding %s of a %d-bit %dx%d image at (%d,%d): the BMP %s" % (
                case["spec"]["encs"][li] if li < len(case["spec"].get("encs", [])) else li, img["depth"], img["W"], img["H"], img["ox"], img["oy"],
                "could not be produced (exception)" if j["bmp"] == "error" else "does not read back as the canvas"),
                # a failure on an input the Lean-mirrored Supported predicate accepts is never excused
                None if supported(img, enc) and classify(img, enc, data) != "F34" else classify(img, enc, data)))
    ok = [(li, img, enc, data, j) for li, img, pad, enc, data, j in parsed if in_quantifier(img, pad, enc, data) and j["bmp"] != "error"]
    for a in range(1, len(ok)):
        if ok[a][4]["bmp"] != ok[0][4]["bmp"]:
            img = ok[0][1]
            rawpacked = (ok[0][2] == "raw") != (ok[a][2] == "raw")
            cl = None
            if classify(img, ok[0][2], ok[0][3]) or classify(img, ok[a][2], ok[a][3]):
                cl = classify(img, ok[0][2], ok[0][3]) or classify(img, ok[a][2], ok[a][3])
            elif rawpacked and f30b(img) and len(ok[a][4]["bmp"]) != len(ok[0][4]["bmp"]):
                cl = "F30b"
            res.append(("identity#%d#%d" % (ok[0][0], ok[a][0]), "two encodings of one %d-bit %dx%d image at (%d,%d) give different BMP bytes (lengths %d / %d)" % (
                img["depth"], img["W"], img["H"], img["ox"], img["oy"], len(ok[0][4]["bmp"]) // 2, len(ok[a][4]["bmp"]) // 2), cl))
            break
    return res


def classify(img, enc, data):
    """id of the open finding whose (narrow) class contains this input, or None"""
    if img["depth"] in (16, 32) and enc == "raw":
        return "F34"
    return None


def negoff_oracle(case, io_):
    sp = case["spec"]
    try:
        neg, norm = json.loads(io_[0]), json.loads(io_[1])
    except Exception:
        return None
    what = "a %d-bit image of %dx%d declared with offsets (%d,%d) on a smaller canvas" % (sp["depth"], sp["W"], sp["H"], sp["ox"], sp["oy"])
    if neg == "error":
        return "[negoff][unlisted] %s: the BMP could not be produced (exception)" % what
    if neg != norm:
        return "[negoff][unlisted] %s does not decode like the same image on the enlarged canvas at offset 0" % what
    B = bytes.fromhex(sp["pix"].replace("-", ""))
    k = {1: 1, 8: 1, 16: 2, 32: 4}[sp["depth"]]
    W, H = sp["W"], sp["H"]
    pix = []
    for j in range(H):
        row = B[j * W * k:(j + 1) * W * k]
        if sp["depth"] in (1, 8): pix.append(list(row))
        elif sp["depth"] == 16: pix.append([(row[2 * i] << 8) | row[2 * i + 1] for i in range(W)])
        else: pix.append([list(row[4 * i:4 * i + 4]) for i in range(W)])
    img = dict(depth=sp["depth"], W=W, H=H, ox=0, oy=0, pix=pix)
    exp = S.expected_bmp(img, sp["packed"], S.repo_palette(sp["depth"], "black and white" if sp["depth"] == 1 else "systemMac"))
    if neg != exp.hex():
        return "[negoff][unlisted] %s: the BMP is not the image on the enlarged canvas" % what
    return None


def oracle(case, io_):
    if case["kind"] == "malformed":
        return None
    if case["kind"].startswith("negoff"):
        return negoff_oracle(case, io_)
    fs = failures_of(case, io_)
    if not fs:
        return None
    fs.sort(key=lambda f: f[2] is not None)       # an unclaimed failure first: it must not hide behind a known one
    tag, text, cl = fs[0]
    return "[%s][%s] %s" % (tag, cl or "unlisted", text)


def _claimed(fid):
    def m(case, failure, params):
        return failure.stage in ("D",) and ("[%s]" % fid) in (failure.what or "")
    return m


# the class test itself is in classify()/f30b(): geometry/segmentation predicates over the spec object, one root cause each
MATCHERS = {"c06_raw_hicolour": _claimed("F34"), "c06_8bit_raw_vs_packed_length": _claimed("F30b")}


def nontrivial(case, io_):
    try:
        return any(json.loads(o).get("read_ok") for o in io_ if o.startswith("{"))
    except Exception:
        return False


if __name__ == "__main__":
    import core
    sys.exit(core.main("c06"))
