"""C18 — riffxtract.main() writes exactly the designated resources, inside <out>/bin."""
import hashlib, importlib, io, os, shutil, struct, sys, tempfile
from pathlib import Path
from core import Case, canon, hx, VERIF
import c01

PROP = "C18"
LEAN_MODULES = ["DrxProps.C18"]
FAMILIES = ["xtract"]
RULE = ("spec movies as in C01 but with FourCC bytes chosen to look like path components ('../', '/', NUL, 'C:', '..'), duplicate types, "
        "up to hundreds of resources, Mac/PC/projector(.EXE with prefix) inputs; the REAL riffxtract.main() is run twice in a scratch "
        "directory under /verif/.work with a sys.addaudithook recording every open-for-write/mkdir/rename/remove; observable = final "
        "content of <out>/bin, number of writes, how the run ended, list of touched paths outside bin, hash of everything else, "
        "second-run equality. Expected values come from the spec movie; the Lean model (extractPlan) is compared on the same bytes; "
        "a mutated stream compares model vs implementation only. distinct_nontrivial = distinct movies with at least one file written.")
TRUSTED = ["harness/c18.py (audit hook, tree hash) observes the OS effects; os.path.join/open('wb') semantics are NOT modelled in Lean",
           "harness/c01.py encoder", "sampled correspondence"]
ASSUMPTIONS = ["output directory exists and is writable", "each run of the tool is a fresh interpreter state for the riffxtract module (module is reloaded before each run)"]

def gen_tables():
    import gen_riff
    return gen_riff.gen_riff_consts()


HOSTILE = [b"../x", b"/etc", b"..\\x", b"C:\\a", b"\x00\x00\x00\x00", b"....", b"../.", b"a/b/", b"////", b"~/.b", b"..  ", b"  ..", b"CON ", b"*?<>", b"\xff\xfe/\x00"]


def safe_name(idx, cc):
    s = f"{idx}." + c01.sanitize(cc, ">")
    return "".join(c if (c.isascii() and (c.isalnum() or c in "-_.")) else "_" for c in s)


def movie_case(rng, kind="movie", nmax=30, big=False, force=None):
    """force=(pos, b): a projector whose embedded movie has byte b at position pos (0 = lowest) of its 4-byte RIFX length field
    (bytes a text-oriented search treats specially: line ends, NUL, backslash, dot, dollar)"""
    order = rng.choice("<>") if force is None else "<"
    exe = (order == "<" and rng.random() < 0.4) or force is not None
    prefix = c01.rand_prefix(rng, order) if exe else b""
    if exe and c01.first_genuine(prefix + b"XFIR0000" + b"39VM") != len(prefix):
        prefix = b"MZ" + bytes(50)
    n = rng.randrange(300, 500) if big else rng.choice([2, 3, 4, 6, rng.randrange(2, nmax + 1)])
    if force is not None:
        n = max(n, 3)
    def fourcc():
        r = rng.random()
        if r < 0.45:
            return rng.choice(HOSTILE)
        if r < 0.6:
            return rng.choice([b"CASt", b"CASt", b"BITD", b"free", b"junk", b"imap", b"mmap", b"RIFX"])
        return c01.rand_fourcc(rng)
    chunks = [(b"imap", b"")] + [(fourcc(), c01.rand_payload(rng) if not big else bytes([rng.randrange(256)]) * rng.randrange(0, 4)) for _ in range(n - 1)]
    mmap_at = rng.randrange(1, n)
    extra = [(rng.choice([b"free", b"junk", fourcc()]), rng.choice([0, -1]), 0, 12, 0, -1) for _ in range(rng.randrange(0, 3))]
    data, entries, offs, chunks = c01.build_movie(order, prefix, chunks, mmap_at, extra)
    if force is None and not big and rng.random() < 0.3:
        # memory-map slots that are field for field IDENTICAL to an earlier slot (two indices naming the same chunk): each index
        # still gets its own file (seeded change C18-m11: entries compared by value + list.index gave the earlier index twice)
        ndup = rng.choice([1, 1, 2])
        ph = [(b"free", 0, 0, 12, 0, -1)] * ndup
        chunks0 = [(c, (b"" if i in (0, mmap_at) else p)) for i, (c, p) in enumerate(chunks)]
        _d, ent, _o, _c = c01.build_movie(order, prefix, chunks0, mmap_at, extra + ph)
        real = [e for e in ent[1:len(ent) - len(extra) - ndup] if e[1] > 0]
        if real:
            dups = [rng.choice(real) for _ in range(ndup)]
            extra = extra + dups
            data, entries, offs, chunks = c01.build_movie(order, prefix, chunks0, mmap_at, extra)
            kind = kind + "-dupslots"
    if force is not None:
        pos, b = force
        L0 = struct.unpack("<i", data[len(prefix) + 4:len(prefix) + 8])[0]
        last = max(i for i in range(1, n) if i != mmap_at)
        cc, pl = chunks[last]
        base = L0 - (len(pl) + len(pl) % 2)
        k = next((k for k in range(0, 70000, 2) if ((base + k) >> (8 * pos)) & 0xFF == b), None)
        if k is not None:
            chunks = [(c, (b"" if i in (0, mmap_at) else p)) for i, (c, p) in enumerate(chunks)]
            chunks[last] = (cc, bytes((7 * j + 1) % 256 for j in range(k)))
            data, entries, offs, chunks = c01.build_movie(order, prefix, chunks, mmap_at, extra)
            kind = kind + "-lenbyte"
    P = len(prefix)
    files = {}
    for idx, (cc, size, off, fl, un, nx) in enumerate(entries):
        cid = c01.sanitize(cc, ">")
        if cid in ("RIFX", "imap", "mmap", "free", "junk") or size <= 0:
            continue
        files[safe_name(idx, cc)] = chunks[offs.index(off - P)][1].hex()
    h = hx(data)
    exp = canon({"outcome": "done", "writes": len(files), "files": files})
    return Case(kind=kind + ("-exe" if exe else "") + ("-big" if big else ""), spec=dict(order=order, exe=exe, prefix_len=P, nchunks=n, nfiles=len(files), sha=hashlib.sha1(data).hexdigest()[:12]),
                lines=[f"xtract plan {1 if exe else 0} {order} {h}", "xtract safety"], expect=[exp, SAFE])


SAFE = canon({"outside_bin": [], "second_run_same": True, "tree_outside_bin_changed": False, "stale_files_replaced": True})


def mutated_case(rng):
    c = movie_case(rng, nmax=6)
    t = c.lines[0].split()
    data = bytearray(bytes.fromhex(t[4]))
    P = c.spec["prefix_len"]
    r = rng.random()
    if r < 0.3:
        data = data[:rng.randrange(P + 12, len(data))] if len(data) > P + 13 else data
    elif r < 0.6:
        # corrupt some map entry's offset/size/id or the imap offset
        p = rng.randrange(P + 12, len(data))
        data[p] = rng.randrange(256)
    else:
        for _ in range(4):
            data[rng.randrange(P, len(data))] = rng.randrange(256)
    return Case(kind="mutated", spec=dict(c.spec, mutated=True), lines=[f"xtract plan {t[2]} {t[3]} {hx(bytes(data))}", "xtract safety"], expect=[None, SAFE])


def fourcc_byte_cases():
    """all 256 byte values in each FourCC position, through the real main()"""
    import random
    out = []
    for pos in range(4):
        for lo in range(0, 256, 32):
            rng = random.Random(pos * 1000 + lo)
            chunks = [(b"imap", b"")]
            for v in range(lo, lo + 32):
                b = bytearray(b"A/.B"); b[pos] = v
                chunks.append((bytes(b), bytes([v])))
            chunks.append((b"mmap", b""))
            order = "<" if (pos + lo // 32) % 2 else ">"
            data, entries, offs, chunks = c01.build_movie(order, b"", chunks, len(chunks) - 1)
            files = {}
            for idx, (cc, size, off, fl, un, nx) in enumerate(entries):
                if c01.sanitize(cc, ">") in ("RIFX", "imap", "mmap", "free", "junk") or size <= 0:
                    continue
                files[safe_name(idx, cc)] = chunks[offs.index(off)][1].hex()
            out.append(Case(kind="fourcc-bytes", spec=dict(pos=pos, lo=lo, order=order),
                            lines=[f"xtract plan 0 {order} {hx(data)}", "xtract safety"],
                            expect=[canon({"outcome": "done", "writes": len(files), "files": files}), SAFE]))
    return out


def cases(rng, tier):
    n = dict(quick=(300, 100, 2), thorough=(5000, 1500, 30), search=(3000, 500, 5))[tier]
    out = fourcc_byte_cases()
    out += [movie_case(rng) for _ in range(n[0])]
    out += [movie_case(rng, big=True) for _ in range(n[2])]
    out += [movie_case(rng, nmax=6, force=(pos, b)) for pos in (0, 1) for b in (0x0A, 0x0D, 0x00, 0x5C, 0x2E, 0x24, 0x1A, 0x0C, 0x85, 0xFF) if not (pos == 0 and b % 2)]
    out += [mutated_case(rng) for _ in range(n[1])]
    return out


# ---------------------------------------------------------------------------------------------- real code

_EVENTS = None
_HOOKED = False


def _hook(event, args):
    if _EVENTS is None:
        return
    try:
        if event == "open":
            path, mode, flags = args
            writing = (isinstance(mode, str) and any(c in mode for c in "wax+")) or (isinstance(flags, int) and flags & (os.O_WRONLY | os.O_RDWR | os.O_CREAT | os.O_TRUNC | os.O_APPEND))
            if writing:
                _EVENTS.append(("write", os.fspath(path) if not isinstance(path, int) else f"fd{path}"))
        elif event in ("os.mkdir", "os.rename", "os.remove", "os.rmdir", "os.symlink", "os.link", "os.truncate", "os.chmod", "shutil.rmtree", "os.replace"):
            _EVENTS.append((event, os.fspath(args[0]) if args and not isinstance(args[0], int) else str(args[0] if args else "")))
    except Exception as e:  # never let the hook raise into the code under test
        _EVENTS.append(("hook-error", repr(e)))


def tree_digest(root: Path, skip: Path):
    h = hashlib.sha1()
    for p in sorted(root.rglob("*")):
        if skip in p.parents or p == skip:
            continue
        st = p.lstat()
        h.update(str(p.relative_to(root)).encode() + b"|" + str(st.st_mode).encode() + b"|")
        if p.is_file() and not p.is_symlink():
            h.update(p.read_bytes())
    return h.hexdigest()


def run_main(data: bytes, order: str, exe: bool):
    global _EVENTS, _HOOKED
    if not _HOOKED:
        sys.addaudithook(_hook); _HOOKED = True
    work = VERIF / ".work"
    work.mkdir(exist_ok=True)
    root = Path(tempfile.mkdtemp(prefix="c18-", dir=work))
    try:
        (root / "in").mkdir(); (root / "out").mkdir(); (root / "side").mkdir()
        (root / "out" / "keep.txt").write_text("keep"); (root / "side" / "s.txt").write_text("side"); (root / "top.txt").write_text("top")
        src = root / "in" / ("movie.EXE" if exe else "movie.dxr")
        src.write_bytes(data)
        bindir = root / "out" / "bin"
        before = tree_digest(root, bindir)
        results = []
        for run_no in range(3):
            if run_no == 2 and bindir.is_dir():
                # third run over STALE content: every file keeps its name and size but gets different bytes
                # (an earlier revision of the movie extracted into the same folder); the run must restore the payloads
                for p in bindir.rglob("*"):
                    if p.is_file():
                        b = p.read_bytes()
                        p.write_bytes(bytes(x ^ 0xFF for x in b))
            import drxtract.riffxtract as rx
            rx = importlib.reload(rx)
            old_argv, old_cwd = sys.argv, os.getcwd()
            sys.argv = ["riffxtract", "pc" if order == "<" else "mac", str(src), str(root / "out")]
            os.chdir(root / "side")
            _EVENTS = []
            so = sys.stdout; sys.stdout = io.StringIO()
            try:
                rx.main(); outcome = "done"
            except SystemExit:
                outcome = "exit"
            except Exception:
                outcome = "error"
            finally:
                ev, _EVENTS = _EVENTS, None
                sys.stdout = so; sys.argv = old_argv; os.chdir(old_cwd)
            files = {}
            if bindir.is_dir():
                for p in sorted(bindir.rglob("*")):
                    files[str(p.relative_to(bindir))] = p.read_bytes().hex() if p.is_file() else "<dir>"
            results.append((outcome, files, ev))
        after = tree_digest(root, bindir)
        outcome, files, ev = results[0]
        rb = os.path.realpath(bindir)
        outside = sorted({f"{k}:{p}" for k, p in ev + results[1][2] + results[2][2] if not (os.path.realpath(os.path.join(root / "side", p)) == rb or os.path.realpath(os.path.join(root / "side", p)).startswith(rb + os.sep))})
        outside = [o.replace(str(root), "<root>") for o in outside]
        plan = {"outcome": outcome, "writes": sum(1 for k, _ in ev if k == "write"), "files": files}
        safety = {"outside_bin": outside, "second_run_same": results[0][:2] == results[1][:2], "tree_outside_bin_changed": before != after,
                  "stale_files_replaced": results[0][:2] == results[2][:2]}
        return plan, safety
    finally:
        shutil.rmtree(root, ignore_errors=True)


def impl(case):
    t = case["lines"][0].split()
    data = bytes.fromhex("" if t[4] == "-" else t[4])
    plan, safety = run_main(data, t[3], t[2] == "1")
    return [canon(plan), canon(safety)]


def nontrivial(case, io):
    return '"files":{}' not in io[0]


MATCHERS = {}
