#!/bin/bash
# selftest.sh [tier] [seeds...]: every ENABLED check on the unchanged tree with several seeds; validates evidence + manifest
cd "$(dirname "$0")/.."
TIER="${1:-quick}"; shift; SEEDS="${@:-1 2 3}"
rc=0
python3-vt - <<'PY' || rc=1
import json, jsonschema
jsonschema.validate(json.load(open('MANIFEST.json')), json.load(open('/root/.vp/MANIFEST.schema.json')))
print("MANIFEST.json valid")
PY
for P in $(cat harness/manifest.d/ENABLED); do
  for S in $SEEDS; do
    t0=$(date +%s)
    out=$(VERIF_SEED=$S ./check $P --tier $TIER 2>&1); code=$?
    t1=$(date +%s)
    echo "$P seed=$S exit=$code $((t1-t0))s :: $(echo "$out" | grep -v '^KNOWN-FINDING' | tail -1)"
    [ $code -ne 0 ] && rc=1 && echo "$out" | grep VIOLATION
    python3-vt -c "
import json, jsonschema, sys
ev=json.load(open('evidence/$P.json'))
jsonschema.validate(ev, json.load(open('/root/.vp/EVIDENCE.schema.json')))
c=ev['coverage']
assert ev['property_id']=='$P' and ev['level']=='proof' and c['obligations']==c['discharged']>=1, (c['obligations'], c['discharged'])
" || { echo "  evidence invalid for $P"; rc=1; }
  done
done
exit $rc
