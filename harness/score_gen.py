"""Stage-G translator of the `score` family (C08/C09): regenerates lean/Drx/Gen/ScoreLayouts.lean from the repo's
working tree.

 * the three straight-line field readers of dir4cparser.py / dir5cparser.py are walked statement by statement with a
   symbolic `indx`; every read of `frameData` becomes a `(name, offset, format)` entry. Any statement that touches
   `frameData` or `indx` in a form not listed below makes the translator REFUSE (-> broken tie), it never guesses.
 * CHANNEL_PARSERS (frame size -> parser class, with the class's own `frame_size`) and DIR_TRANSITION_NAMES are dumped
   from the imported modules.
"""
import ast, importlib, inspect, textwrap
from gen_common import lean_str


class Refuse(Exception):
    pass


def _is_name(n, s):
    return isinstance(n, ast.Name) and n.id == s


def _strip_parens_int(n):
    """int(X) -> X"""
    if isinstance(n, ast.Call) and _is_name(n.func, "int") and len(n.args) == 1 and not n.keywords:
        return n.args[0]
    return n


def _index_expr(n, indx):
    """value of an index expression built from `indx` and integer constants"""
    if _is_name(n, "indx"):
        return indx
    if isinstance(n, ast.Constant) and isinstance(n.value, int):
        return n.value
    if isinstance(n, ast.BinOp) and isinstance(n.op, ast.Add):
        return _index_expr(n.left, indx) + _index_expr(n.right, indx)
    raise Refuse("index expression not understood: " + ast.unparse(n))


def _frame_read(n, indx):
    """recognise one read of frameData; returns (offset, fmt) or None if `n` does not mention frameData"""
    src = ast.unparse(n)
    if "frameData" not in src:
        return None
    # struct.unpack(">h", frameData[a:b])[0]
    if (isinstance(n, ast.Subscript) and isinstance(n.slice, ast.Constant) and n.slice.value == 0
            and isinstance(n.value, ast.Call) and isinstance(n.value.func, ast.Attribute)
            and _is_name(n.value.func.value, "struct") and n.value.func.attr == "unpack" and len(n.value.args) == 2):
        fmt, arg = n.value.args
        if not (isinstance(fmt, ast.Constant) and isinstance(fmt.value, str)):
            raise Refuse("format not a literal: " + src)
        if not (isinstance(arg, ast.Subscript) and _is_name(arg.value, "frameData") and isinstance(arg.slice, ast.Slice)
                and arg.slice.step is None and arg.slice.lower is not None and arg.slice.upper is not None):
            raise Refuse("unpack argument not frameData[a:b]: " + src)
        a, b = _index_expr(arg.slice.lower, indx), _index_expr(arg.slice.upper, indx)
        table = {">h": ("s16", 2), ">H": ("u16", 2), "<h": ("s16le", 2), "<H": ("u16le", 2), ">i": ("s32", 4), ">I": ("u32", 4),
                 "B": ("u8", 1), "b": ("s8", 1), ">B": ("u8", 1), ">b": ("s8", 1)}
        if fmt.value not in table:
            raise Refuse("format not supported: " + src)
        name, w = table[fmt.value]
        if b - a != w:
            raise Refuse(f"slice width {b - a} does not match format {fmt.value}: " + src)
        return a, name
    # int(frameData[i]) / frameData[i]
    m = _strip_parens_int(n)
    if isinstance(m, ast.Subscript) and _is_name(m.value, "frameData") and not isinstance(m.slice, ast.Slice):
        return _index_expr(m.slice, indx), "u8"
    raise Refuse("read of frameData not understood: " + src)


def _post(n, indx):
    """`n` = the right-hand side of an assignment that reads frameData. Returns (offset, fmt, post) where `post` names the
    wrapper around the raw read: '' | 'mod64' | 'transition_name'."""
    r = None
    try:
        r = _frame_read(n, indx)
    except Refuse:
        r = None
    if r:
        return r[0], r[1], ""
    # (int(frameData[i]) % 64)
    if isinstance(n, ast.BinOp) and isinstance(n.op, ast.Mod) and isinstance(n.right, ast.Constant) and n.right.value == 64:
        r = _frame_read(n.left, indx)
        return r[0], r[1], "mod64"
    # self.get_transition_name(int(frameData[i]))
    if (isinstance(n, ast.Call) and isinstance(n.func, ast.Attribute) and _is_name(n.func.value, "self")
            and n.func.attr == "get_transition_name" and len(n.args) == 1):
        r = _frame_read(n.args[0], indx)
        return r[0], r[1], "transition_name"
    raise Refuse("read of frameData not understood: " + ast.unparse(n))


def layout_of(func):
    """[(name, offset, fmt, post)] of one read_* method, plus the final value of indx"""
    tree = ast.parse(textwrap.dedent(inspect.getsource(func)))
    fn = tree.body[0]
    indx = None
    out = []
    for st in fn.body:
        src = ast.unparse(st)
        touches = ("frameData" in src) or ("indx" in src)
        if isinstance(st, ast.Expr) and isinstance(st.value, ast.Constant):
            continue                                   # docstring
        if not touches:
            continue                                   # derived values, dict building, return: hand-modelled, tied by stage C
        if isinstance(st, ast.If):
            # `if DEBUG_*: logging.debug(...)` may mention the variables; nothing else may
            if isinstance(st.test, ast.Name) and st.test.id.startswith("DEBUG_") and not st.orelse and all(
                    isinstance(b, ast.Expr) and isinstance(b.value, ast.Call) and ast.unparse(b.value.func).startswith("logging.")
                    for b in st.body):
                continue
            raise Refuse("conditional touching frameData/indx: " + src[:120])
        if isinstance(st, ast.Assign) and len(st.targets) == 1 and _is_name(st.targets[0], "indx"):
            if isinstance(st.value, ast.Constant) and st.value.value == 0 and indx is None:
                indx = 0
                continue
            if indx is None:
                raise Refuse("indx used before `indx = 0`")
            if isinstance(st.value, ast.BinOp) and isinstance(st.value.op, ast.Add) and _is_name(st.value.left, "indx") \
                    and isinstance(st.value.right, ast.Constant) and isinstance(st.value.right.value, int) and st.value.right.value > 0:
                indx += st.value.right.value
                continue
            raise Refuse("assignment to indx not understood: " + src)
        if isinstance(st, ast.AugAssign) and _is_name(st.target, "indx"):
            if indx is not None and isinstance(st.op, ast.Add) and isinstance(st.value, ast.Constant) and isinstance(st.value.value, int) and st.value.value > 0:
                indx += st.value.value
                continue
            raise Refuse("augmented assignment to indx not understood: " + src)
        if isinstance(st, ast.Assign) and len(st.targets) == 1 and isinstance(st.targets[0], ast.Name):
            if indx is None:
                raise Refuse("frameData read before `indx = 0`")
            off, fmt, post = _post(st.value, indx)
            out.append((st.targets[0].id, off, fmt, post))
            continue
        raise Refuse("statement touching frameData/indx not understood: " + src[:120])
    names = [n for n, *_ in out]
    if len(set(names)) != len(names):
        raise Refuse("a field name is read twice: " + str(names))
    return out, indx


def gen_tables(repo_pkg="drxtract"):
    vwsc = importlib.import_module(repo_pkg + ".vwsc.vwsc")
    consts = importlib.import_module(repo_pkg + ".common.constants")
    L = ["-- GENERATED by harness/score_gen.py from drxtract/vwsc/*.py and drxtract/common/constants.py; do not edit",
         "import Drx.VwscLayout", "namespace Drx.Gen.Score", "open Drx.VwscLayout", ""]
    parsers = []
    for size, p in vwsc.CHANNEL_PARSERS.items():
        cls = type(p).__name__
        if not isinstance(size, int) or not isinstance(p.frame_size, int):
            raise Refuse("CHANNEL_PARSERS entry not (int -> parser with int frame_size)")
        parsers.append((size, cls, p.frame_size))
        tag = {"D4VwscChannelParser": "d4", "D5VwscChannelParser": "d5"}.get(cls)
        if tag is None:
            raise Refuse("unknown channel parser class " + cls)
        for meth, short in (("read_main_channel_info", "Main"), ("read_palette_channel_info", "Palette"), ("read_sprite_channel_info", "Sprite")):
            lay, end = layout_of(getattr(type(p), meth))
            L.append(f"/-- {cls}.{meth}: fields in reading order; the reader's index ends at {end} -/")
            for name, off, fmt, post in lay:
                L.append(f"def {tag}{short}_{name} : Fld := ⟨{off}, .{fmt}, .{post or 'raw'}⟩")
            L.append(f"def {tag}{short} : List (String × Fld) := [" + ", ".join(f'("{n}", {tag}{short}_{n})' for n, *_ in lay) + "]")
            L.append(f"def {tag}{short}_end : Nat := {end}")
            L.append("")
    L.append("/-- vwsc.CHANNEL_PARSERS: (key, class name, the instance's frame_size) -/")
    L.append("def channelParsers : List (Nat × String × Nat) := [" + ", ".join(f'({s}, "{c}", {f})' for s, c, f in parsers) + "]")
    L.append("")
    tn = consts.DIR_TRANSITION_NAMES
    if not all(isinstance(k, int) and 0 <= k < 256 and isinstance(v, str) for k, v in tn.items()):
        raise Refuse("DIR_TRANSITION_NAMES not (byte -> str)")
    L.append("/-- common.constants.DIR_TRANSITION_NAMES -/")
    L.append("def transitionNames : List (Nat × String) := [" + ", ".join(f"({k}, {lean_str(v)})" for k, v in tn.items()) + "]")
    L.append("")
    L.append("end Drx.Gen.Score")
    return {"Drx/Gen/ScoreLayouts.lean": "\n".join(L) + "\n"}


if __name__ == "__main__":
    import sys, os
    sys.path.insert(0, os.environ.get("DRX_REPO", "/repo"))
    from pathlib import Path
    root = Path(__file__).resolve().parent.parent / "lean"
    for rel, content in gen_tables().items():
        (root / rel).write_text(content)
        print(content)
