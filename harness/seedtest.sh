#!/bin/bash
# seedtest.sh <PROP> <seed dir with patch.diff, demo.py>  — confirm a seeded change and run the check against it in a scratch worktree
P="$1"; D="$2"; W=/tmp/mut_$$
git -C /repo worktree add -q --detach $W HEAD || exit 3
trap "git -C /repo worktree remove --force $W" EXIT
echo "== demo without change:"; (cd $W && PYTHONPATH=$W /venv/bin/python $D/demo.py >/dev/null 2>&1; echo "exit $?")
git -C $W apply $D/patch.diff || { echo "patch does not apply"; exit 3; }
echo "== tests with change:"; (cd $W && PYTHONPATH=$W /venv/bin/python -m pytest -q -p no:cacheprovider 2>&1 | tail -1)
echo "== demo with change:"; (cd $W && PYTHONPATH=$W /venv/bin/python $D/demo.py >/dev/null 2>&1; echo "exit $?")
# the evidence file and generated tables written by a run against a mutated tree must not survive it
cp /verif/evidence/$P.json /tmp/ev_$$.json 2>/dev/null
echo "== check $P quick:"; (cd /verif && DRX_REPO=$W ./check $P --tier ${TIER:-quick} 2>&1 | grep -v "^KNOWN-FINDING" | tail -3)
cp /tmp/ev_$$.json /verif/evidence/$P.json 2>/dev/null; rm -f /tmp/ev_$$.json
(cd /verif && git checkout -- lean/Drx/Gen 2>/dev/null)
