#!/bin/bash
# seedtest.sh <PROP> <seed dir with patch.diff, demo.py>  — confirm a seeded change and run the check against it.
# The change is applied in a scratch worktree of /repo and the check runs from a scratch COPY of /verif (build products included),
# so neither /repo nor /verif (evidence, generated tables, build output) sees anything of the mutated tree. TIER=thorough for the thorough tier.
P="$1"; D="$2"; W=/tmp/mut_$$; V=/tmp/verif_seed_$$
git -C /repo worktree add -q --detach $W HEAD || exit 3
trap "git -C /repo worktree remove --force $W; rm -rf $V" EXIT
echo "== demo without change:"; (cd $W && PYTHONPATH=$W /venv/bin/python $D/demo.py >/dev/null 2>&1; echo "exit $?")
git -C $W apply $D/patch.diff || { echo "patch does not apply"; exit 3; }
echo "== tests with change:"; (cd $W && PYTHONPATH=$W timeout 600 /venv/bin/python -m pytest -q -p no:cacheprovider 2>&1 | tail -1)
echo "== demo with change:"; (cd $W && PYTHONPATH=$W timeout 600 /venv/bin/python $D/demo.py >/dev/null 2>&1; echo "exit $?")
mkdir -p $V /tmp/seed_replays && rsync -a --delete --exclude .git --exclude replays --exclude .work /verif/ $V/ && mkdir -p $V/.work
echo "== check $P ${TIER:-quick}:"; (cd $V && DRX_REPO=$W ./check $P --tier ${TIER:-quick} 2>&1 | grep -v "^KNOWN-FINDING" | tail -3; cp $V/replays/*.json /tmp/seed_replays/ 2>/dev/null)
