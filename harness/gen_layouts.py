"""Stage G translator for straight-line record readers: walks the Python `ast` of a function body, symbolically tracks the
byte offsets of `struct.unpack(<order>+"<fmt>", data[a:b])[0]` reads and emits `(name, offset, width, signed)` lists as Lean.
It REFUSES (raises) on any statement form it does not recognise inside the region it is asked to translate, instead of guessing.
"""
import ast
from pathlib import Path
from core import REPO
from gen_common import lean_str

FMT = {"i": (4, True), "I": (4, False), "h": (2, True), "H": (2, False), "b": (1, True), "B": (1, False), "c": (1, False)}


class Refuse(Exception):
    pass


def _const_int(node, env):
    """evaluate an index expression to (symbol or None, constant)"""
    if isinstance(node, ast.Constant) and isinstance(node.value, int):
        return (None, node.value)
    if isinstance(node, ast.Name):
        if node.id in env:
            return env[node.id]
        return (node.id, 0)
    if isinstance(node, ast.BinOp) and isinstance(node.op, (ast.Add, ast.Sub)):
        ls, lc = _const_int(node.left, env)
        rs, rc = _const_int(node.right, env)
        if rs is not None and ls is not None:
            raise Refuse("two symbols in an index expression")
        sign = 1 if isinstance(node.op, ast.Add) else -1
        if rs is not None and sign < 0:
            raise Refuse("negative symbol")
        return (ls if ls is not None else rs, lc + sign * rc)
    raise Refuse("index expression " + ast.dump(node)[:80])


def _fmt_of(node):
    """(order, fmt) of the first struct.unpack argument: order is 'param' (byte_order + "..."), '>' or '<'"""
    if isinstance(node, ast.BinOp) and isinstance(node.op, ast.Add) and isinstance(node.right, ast.Constant):
        return "param", node.right.value
    if isinstance(node, ast.Constant) and isinstance(node.value, str):
        s = node.value
        if s[:1] in "<>":
            return s[0], s[1:]
        return "native", s
    raise Refuse("format expression " + ast.dump(node)[:80])


def _unpack_call(node):
    """matches struct.unpack(F, SLICE)[0] / struct.unpack(F, SLICE) ; returns (F node, slice node, indexed)"""
    indexed = False
    if isinstance(node, ast.Subscript) and isinstance(node.slice, ast.Constant) and node.slice.value == 0:
        node, indexed = node.value, True
    if isinstance(node, ast.Call) and isinstance(node.func, ast.Attribute) and node.func.attr == "unpack" and len(node.args) == 2:
        return node.args[0], node.args[1], indexed
    return None


def layout_of(path: Path, func: str, base_symbol: str, stop_at_loop=True):
    """fields read by the straight-line prefix of `func` (relative to the argument named base_symbol, or absolute when None)"""
    tree = ast.parse(path.read_text())
    fn = next((n for n in ast.walk(tree) if isinstance(n, ast.FunctionDef) and n.name == func), None)
    if fn is None:
        raise Refuse(f"{path.name}: no function {func}")
    env, fields = {}, []
    for st in fn.body:
        if isinstance(st, ast.Expr):                       # docstring / logging call
            continue
        if isinstance(st, (ast.For, ast.While)):
            if stop_at_loop:
                break
            raise Refuse(f"{func}: loop at line {st.lineno}")
        if isinstance(st, ast.Return):
            break
        if isinstance(st, ast.AugAssign) and isinstance(st.target, ast.Name):
            s, c = env.get(st.target.id, (st.target.id, 0))
            ds, dc = _const_int(st.value, env)
            if ds is not None:
                raise Refuse("symbolic increment")
            env[st.target.id] = (s, c + (dc if isinstance(st.op, ast.Add) else -dc))
            continue
        tgt, val = None, None
        if isinstance(st, ast.Assign) and len(st.targets) == 1:
            tgt, val = st.targets[0], st.value
        elif isinstance(st, ast.AnnAssign) and st.value is not None:
            tgt, val = st.target, st.value
        else:
            raise Refuse(f"{func}: statement {type(st).__name__} at line {st.lineno}")
        uc = _unpack_call(val)
        if uc is None:
            # index bookkeeping such as `indx = indx + 4`, `offset = 24`, or construction of the result object
            if isinstance(tgt, ast.Name):
                try:
                    env[tgt.id] = _const_int(val, env)
                except Refuse:
                    env.pop(tgt.id, None)
            continue
        fnode, snode, indexed = uc
        order, fmt = _fmt_of(fnode)
        if isinstance(snode, ast.Subscript) and isinstance(snode.slice, ast.Slice):
            lo = _const_int(snode.slice.lower, env) if snode.slice.lower is not None else (None, 0)
        elif isinstance(snode, ast.Name):
            lo = (None, 0)                                  # the whole buffer
        else:
            raise Refuse("slice " + ast.dump(snode)[:80])
        if lo[0] not in (None, base_symbol):
            raise Refuse(f"{func}: offset depends on {lo[0]}")
        off = lo[1]
        names = [tgt.id] if isinstance(tgt, ast.Name) else [f"f{len(fields) + k}" for k in range(len(fmt))]
        if not indexed and len(fmt) > 1:
            names = [f"{tgt.id if isinstance(tgt, ast.Name) else 'f'}{k}" for k in range(len(fmt))]
        for k, ch in enumerate(fmt):
            if ch not in FMT:
                raise Refuse(f"format char {ch!r}")
            w, sg = FMT[ch]
            fields.append((names[k] if k < len(names) else f"{names[0]}_{k}", off, w, sg, order))
            off += w
    return fields


def lean_layout(name, fields):
    rows = ", ".join(f"⟨{lean_str(n)}, {o}, {w}, {'true' if sg else 'false'}⟩" for n, o, w, sg, _ in fields)
    return f"def {name} : List Field := [{rows}]"


def gen_riff_layouts():
    riff = REPO / "drxtract" / "riff"
    L = ["-- GENERATED by harness/gen_layouts.py from /repo on every run; do not edit", "import Drx.Layout", "namespace Drx.Gen.RiffLayouts", "open Drx.Layout", ""]
    L.append(lean_layout("imap", layout_of(riff / "imap.py", "parse_imap", None)))
    L.append(lean_layout("mmapHeader", layout_of(riff / "mmap.py", "parse_mmap", None)))
    ent = layout_of(riff / "mmap.py", "parse_mmap_resource", "offset")
    L.append(lean_layout("mmapEntry", ent))
    L += ["", "end Drx.Gen.RiffLayouts"]
    return {"Drx/Gen/RiffLayouts.lean": "\n".join(L) + "\n"}


if __name__ == "__main__":
    for k, v in gen_riff_layouts().items():
        print(v)
