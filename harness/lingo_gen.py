"""
Shared helper of C02 / C03 / C04: S-expression programs (the wire format of lean/Drx/Spec/Ast.lean), the `lspec` driver
(compile scheme + reference readers, compiled Lean), the real decompiler entry points, fixture-based validation of the
compile scheme, and the program generators.
"""
from __future__ import annotations
import json, os, re, struct, subprocess, sys
from pathlib import Path

VERIF = Path(__file__).resolve().parent.parent
REPO = Path(os.environ.get("DRX_REPO", "/repo"))
EXE = VERIF / "lean" / ".lake" / "build" / "bin" / "drx_lspec"
FIX = REPO / "tests" / "files" / "lingo"

# ------------------------------------------------------------------------------------------------ S-expressions

_ATOM = re.compile(r"^[A-Za-z0-9_.+\-]+$")


def sx_str(s: str) -> str:
    out = ['"']
    for ch in s:
        o = ord(ch)
        if ch == '"':
            out.append('\\"')
        elif ch == "\\":
            out.append("\\\\")
        elif o < 0x20 or o > 0x7E:
            out.append("\\x%02x" % o if o < 256 else "?")
        else:
            out.append(ch)
    out.append('"')
    return "".join(out)


def sx_name(n: str) -> str:
    return n if _ATOM.match(n) else sx_str(n)


def sx(x) -> str:
    """render a Python tree: list -> (...), ('str', s) -> string literal, str -> atom/name, int -> number"""
    if isinstance(x, list):
        return "(" + " ".join(sx(y) for y in x) + ")"
    if isinstance(x, tuple) and x[0] == "str":
        return sx_str(x[1])
    if isinstance(x, int):
        return str(x)
    return sx_name(x)


def S(s):
    return ("str", s)


def names_sx(names) -> str:
    return "(names" + "".join(" " + sx_str(n) for n in names) + ")"


def hexs(s: str) -> str:
    b = s.encode("latin-1")
    return b.hex() if b else "-"


# ------------------------------------------------------------------------------------------------ driver

def ask(lines, timeout=600):
    if not lines:
        return []
    p = subprocess.run([str(EXE)], input="\n".join(lines) + "\n", stdout=subprocess.PIPE, stderr=subprocess.DEVNULL, text=True, timeout=timeout)
    out = p.stdout.split("\n")
    if out and out[-1] == "":
        out.pop()
    return out + [None] * (len(lines) - len(out))


def ask_parallel(lines, nproc=16):
    if len(lines) < 64:
        return ask(lines)
    import threading
    k = (len(lines) + nproc - 1) // nproc
    parts = [lines[i:i + k] for i in range(0, len(lines), k)]
    res = [None] * len(parts)
    def work(i):
        res[i] = ask(parts[i])
    th = [threading.Thread(target=work, args=(i,)) for i in range(len(parts))]
    [t.start() for t in th]; [t.join() for t in th]
    return [x for r in res for x in r]


def gen_line(script_sx: str, names=(), scr_num=0) -> str:
    return f"lspec gen {scr_num} {hexs(names_sx(names))} {hexs(script_sx)}"


def parse_gen(out: str):
    """-> dict(lscr, lnam, names_sx, header, handlers=[(sexpr, codehex)]) or dict(error=...)"""
    if out is None:
        return dict(error="driver crashed")
    t = out.split("\t")
    if t[0] != "ok":
        return dict(error=out)
    hs = [(t[i], t[i + 1]) for i in range(5, len(t) - 1, 2)]
    return dict(lscr=t[1], lnam=t[2], names_sx=t[3], header=t[4], handlers=hs)


def rt_line(text: str, names_sexpr: str, scr_num=0) -> str:
    return f"lspec rt {scr_num} {hexs(names_sexpr)} {text.encode('utf-8').hex() or '-'}"


def parse_rt(out: str):
    if out is None:
        return dict(error="driver crashed")
    t = out.split("\t")
    if t[0] != "ok":
        return dict(error=out)
    hs = [(t[i], t[i + 1]) for i in range(4, len(t) - 1, 2)]
    return dict(whole=t[1], inscript=t[2].split(",") if t[2] else [], header=t[3], handlers=hs)


# ------------------------------------------------------------------------------------------------ the real code

def B(h):
    return bytes.fromhex("" if h == "-" else h)


def decompile(lscr: bytes, lnam: bytes, want=("lingo",)):
    """the property's observation point: generate_*_code(parse_lrcr_file_data(lscr, names)); a fresh parse per generator"""
    from drxtract.lingosrc.parse.lscr import parse_lrcr_file_data
    from drxtract.lingosrc.parse.lnam import parse_lnam_file_data
    from drxtract.lingosrc.codegen.lingo import generate_lingo_code
    from drxtract.lingosrc.codegen.js import generate_js_code
    out = {}
    names = parse_lnam_file_data(lnam)
    if "lingo" in want:
        out["lingo"] = generate_lingo_code(parse_lrcr_file_data(lscr, list(names)))
    if "js" in want:
        out["js"] = generate_js_code(parse_lrcr_file_data(lscr, list(names)))
    return out


# ------------------------------------------------------------------------------------------------ fixtures

def fixture_triples():
    s = (REPO / "tests" / "test_lscr2lingo.py").read_text()
    return re.findall(r"\['([^']+\.Lnam)',\s*\\?\s*'([^']+\.Lscr)',\s*\\?\s*'([^']+\.lingo)'\]", s)


def raw_names(lnam: bytes):
    n = struct.unpack(">h", lnam[18:20])[0]
    i, out = 20, []
    for _ in range(n):
        k = lnam[i]; out.append(lnam[i + 1:i + 1 + k].decode("latin-1")); i += 1 + k
    return out


def fixture_handlers(lscr: bytes):
    """[(name index, arg name indices, local name indices, bytecode)] straight from the container"""
    frb_n, _, frb_off = struct.unpack(">hhh", lscr[0x48:0x4e])
    out = []
    for i in range(frb_n):
        r = struct.unpack(">hhiihihihiihhi", lscr[frb_off + 42 * i: frb_off + 42 * i + 42])
        name, _, ln, off, narg, argoff, nloc, locoff = r[:8]
        args = [struct.unpack(">h", lscr[argoff + 2 * k: argoff + 2 * k + 2])[0] for k in range(narg)]
        locs = [struct.unpack(">h", lscr[locoff + 2 * k: locoff + 2 * k + 2])[0] for k in range(nloc)]
        out.append((name, args, locs, lscr[off:off + ln]))
    return out


def validate_scheme():
    """reads every fixture's expected .lingo with the Lean reader, compiles it with the fixture's own name table and
    compares the bytecode handler by handler with the fixture's real .Lscr"""
    tr = fixture_triples()
    lines, meta = [], []
    for lnam_f, lscr_f, lingo_f in tr:
        lnam = (FIX / lnam_f).read_bytes(); lscr = (FIX / lscr_f).read_bytes(); text = (FIX / lingo_f).read_text()
        lines.append(rt_line(text, names_sx(raw_names(lnam))))
        meta.append((lscr_f, fixture_handlers(lscr)))
    outs = ask(lines)
    total = same = scripts_same = unreadable = 0
    detail = {}
    for (fn, fh), o in zip(meta, outs):
        r = parse_rt(o)
        if "error" in r:
            total += len(fh); unreadable += len(fh); detail[fn] = r["error"][:80]; continue
        ok_all = len(r["handlers"]) == len(fh)
        bad = []
        for i, (_, _, _, code) in enumerate(fh):
            total += 1
            got = r["inscript"][i] if i < len(r["inscript"]) else None
            if got is not None and got == (code.hex() or "-"):
                same += 1
            else:
                ok_all = False; bad.append(i)
                if i >= len(r["handlers"]) or r["handlers"][i][0] == "unreadable":
                    unreadable += 1
        if ok_all:
            scripts_same += 1
        else:
            detail[fn] = "handlers " + ",".join(map(str, bad))
    return dict(fixtures=len(tr), handlers=total, handlers_reproduced=same, scripts_reproduced=scripts_same,
                handlers_unreadable=unreadable, rate=round(same / max(1, total), 4), not_reproduced=detail)


if __name__ == "__main__":
    import logging; logging.disable(logging.CRITICAL)
    print(json.dumps(validate_scheme(), indent=1))
