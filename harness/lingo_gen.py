"""
Shared helper of C02 / C03 / C04: S-expression programs (the wire format of lean/Drx/Spec/Ast.lean), the `lspec` driver
(compile scheme + reference readers, compiled Lean), the real decompiler entry points, fixture-based validation of the
compile scheme, and the program generators.
"""
from __future__ import annotations
import json, os, re, struct, subprocess, sys
from pathlib import Path

VERIF = Path(__file__).resolve().parent.parent
REPO = Path(os.environ.get("DRX_REPO", "/repo"))
EXE = VERIF / "lean" / ".lake" / "build" / "bin" / "drx_lspec"
FIX = REPO / "tests" / "files" / "lingo"

# ------------------------------------------------------------------------------------------------ S-expressions

_ATOM = re.compile(r"^[A-Za-z0-9_.+\-]+$")


def sx_str(s: str) -> str:
    out = ['"']
    for ch in s:
        o = ord(ch)
        if ch == '"':
            out.append('\\"')
        elif ch == "\\":
            out.append("\\\\")
        elif o < 0x20 or o > 0x7E:
            out.append("\\x%02x" % o if o < 256 else "?")
        else:
            out.append(ch)
    out.append('"')
    return "".join(out)


def sx_name(n: str) -> str:
    return n if _ATOM.match(n) else sx_str(n)


def sx(x) -> str:
    """render a Python tree: list -> (...), ('str', s) -> string literal, str -> atom/name, int -> number"""
    if isinstance(x, list):
        return "(" + " ".join(sx(y) for y in x) + ")"
    if isinstance(x, tuple) and x[0] == "str":
        return sx_str(x[1])
    if isinstance(x, int):
        return str(x)
    return sx_name(x)


def S(s):
    return ("str", s)


def names_sx(names) -> str:
    return "(names" + "".join(" " + sx_str(n) for n in names) + ")"


def hexs(s: str) -> str:
    b = s.encode("latin-1")
    return b.hex() if b else "-"


# ------------------------------------------------------------------------------------------------ driver

def ask(lines, timeout=600):
    if not lines:
        return []
    import time
    for attempt in range(40):
        # the executable may be in the middle of being re-linked by a concurrent `lake build` of another check: wait for it
        try:
            p = subprocess.run([str(EXE)], input="\n".join(lines) + "\n", stdout=subprocess.PIPE, stderr=subprocess.DEVNULL, text=True, timeout=timeout)
            break
        except (FileNotFoundError, PermissionError, OSError):
            if attempt == 39:
                raise
            time.sleep(3)
    out = p.stdout.split("\n")
    if out and out[-1] == "":
        out.pop()
    return out + [None] * (len(lines) - len(out))


def ask_parallel(lines, nproc=16):
    if len(lines) < 64:
        return ask(lines)
    import threading
    k = (len(lines) + nproc - 1) // nproc
    parts = [lines[i:i + k] for i in range(0, len(lines), k)]
    res = [None] * len(parts)
    def work(i):
        res[i] = ask(parts[i])
    th = [threading.Thread(target=work, args=(i,)) for i in range(len(parts))]
    [t.start() for t in th]; [t.join() for t in th]
    return [x for r in res for x in r]


def gen_line(script_sx: str, names=(), scr_num=0) -> str:
    return f"lspec gen {scr_num} {hexs(names_sx(names))} {hexs(script_sx)}"


def parse_gen(out: str):
    """-> dict(lscr, lnam, names_sx, header, handlers=[(sexpr, codehex)]) or dict(error=...)"""
    if out is None:
        return dict(error="driver crashed")
    t = out.split("\t")
    if t[0] != "ok":
        return dict(error=out)
    hs = [(t[i], t[i + 1]) for i in range(5, len(t) - 1, 2)]
    return dict(lscr=t[1], lnam=t[2], names_sx=t[3], header=t[4], handlers=hs)


def rt_line(text: str, names_sexpr: str, scr_num=0) -> str:
    return f"lspec rt {scr_num} {hexs(names_sexpr)} {text.encode('utf-8').hex() or '-'}"


def parse_rt(out: str):
    if out is None:
        return dict(error="driver crashed")
    t = out.split("\t")
    if t[0] != "ok":
        return dict(error=out)
    hs = [(t[i], t[i + 1]) for i in range(4, len(t) - 1, 2)]
    return dict(whole=t[1], inscript=t[2].split(",") if t[2] else [], header=t[3], handlers=hs)


# ------------------------------------------------------------------------------------------------ the real code

def B(h):
    return bytes.fromhex("" if h == "-" else h)


def decompile(lscr: bytes, lnam: bytes, want=("lingo",)):
    """the property's observation point: generate_*_code(parse_lrcr_file_data(lscr, names)); a fresh parse per generator"""
    from drxtract.lingosrc.parse.lscr import parse_lrcr_file_data
    from drxtract.lingosrc.parse.lnam import parse_lnam_file_data
    from drxtract.lingosrc.codegen.lingo import generate_lingo_code
    from drxtract.lingosrc.codegen.js import generate_js_code
    out = {}
    names = parse_lnam_file_data(lnam)
    if "lingo" in want:
        out["lingo"] = generate_lingo_code(parse_lrcr_file_data(lscr, list(names)))
    if "js" in want:
        out["js"] = generate_js_code(parse_lrcr_file_data(lscr, list(names)))
    return out


# ------------------------------------------------------------------------------------------------ fixtures

def fixture_triples():
    s = (REPO / "tests" / "test_lscr2lingo.py").read_text()
    return re.findall(r"\['([^']+\.Lnam)',\s*\\?\s*'([^']+\.Lscr)',\s*\\?\s*'([^']+\.lingo)'\]", s)


def raw_names(lnam: bytes):
    n = struct.unpack(">h", lnam[18:20])[0]
    i, out = 20, []
    for _ in range(n):
        k = lnam[i]; out.append(lnam[i + 1:i + 1 + k].decode("latin-1")); i += 1 + k
    return out


def fixture_handlers(lscr: bytes):
    """[(name index, arg name indices, local name indices, bytecode)] straight from the container"""
    frb_n, _, frb_off = struct.unpack(">hhh", lscr[0x48:0x4e])
    out = []
    for i in range(frb_n):
        r = struct.unpack(">hhiihihihiihhi", lscr[frb_off + 42 * i: frb_off + 42 * i + 42])
        name, _, ln, off, narg, argoff, nloc, locoff = r[:8]
        args = [struct.unpack(">h", lscr[argoff + 2 * k: argoff + 2 * k + 2])[0] for k in range(narg)]
        locs = [struct.unpack(">h", lscr[locoff + 2 * k: locoff + 2 * k + 2])[0] for k in range(nloc)]
        out.append((name, args, locs, lscr[off:off + ln]))
    return out


def validate_scheme():
    """reads every fixture's expected .lingo with the Lean reader, compiles it with the fixture's own name table and
    compares the bytecode handler by handler with the fixture's real .Lscr"""
    tr = fixture_triples()
    lines, meta = [], []
    for lnam_f, lscr_f, lingo_f in tr:
        lnam = (FIX / lnam_f).read_bytes(); lscr = (FIX / lscr_f).read_bytes(); text = (FIX / lingo_f).read_text()
        lines.append(rt_line(text, names_sx(raw_names(lnam))))
        meta.append((lscr_f, fixture_handlers(lscr)))
    outs = ask(lines)
    total = same = scripts_same = unreadable = 0
    detail = {}
    for (fn, fh), o in zip(meta, outs):
        r = parse_rt(o)
        if "error" in r:
            total += len(fh); unreadable += len(fh); detail[fn] = r["error"][:80]; continue
        ok_all = len(r["handlers"]) == len(fh)
        bad = []
        for i, (_, _, _, code) in enumerate(fh):
            total += 1
            got = r["inscript"][i] if i < len(r["inscript"]) else None
            if got is not None and got == (code.hex() or "-"):
                same += 1
            else:
                ok_all = False; bad.append(i)
                if i >= len(r["handlers"]) or r["handlers"][i][0] == "unreadable":
                    unreadable += 1
        if ok_all:
            scripts_same += 1
        else:
            detail[fn] = "handlers " + ",".join(map(str, bad))
    return dict(fixtures=len(tr), handlers=total, handlers_reproduced=same, scripts_reproduced=scripts_same,
                handlers_unreadable=unreadable, rate=round(same / max(1, total), 4), not_reproduced=detail)


# ------------------------------------------------------------------------------------------------ program generators
# Trees are nested Python lists in exactly the S-expression shape of lean/Drx/Spec/Ast.lean:
#   ['i', 5] ['s', S("abc")] ['f', 3001, 3] ['y', name] ['l'|'p'|'g'|'r', name] 'me' ['b', op, A, B] ['u', op, A] ['fld', A]
#   ['c', f, args...] ['m', OBJ, meth, args...] ['li', ...] ['pl', k, v, ...] ['the', tbl, k, args...] ['key', n] ['mov', n]
#   ['op', n, OBJ] ['ch', kind, A, B, OF]
#   statements: ['set', LV, V] ['put', mode, V, LV] ['del', T] ['hil', T] ['call', f, args...] ['mcall', OBJ, m, args...] 'exit'
#   ['tell', OBJ, S...] ['if', C, [S...], [S...]] ['while', C, S...] ['with', V, A, B, 'up'|'down', S...] ['in', V, L, S...] 'exitrep'

BINOPS = ["mul", "add", "sub", "div", "mod", "concat", "concats", "lt", "le", "ne", "eq", "gt", "ge", "and", "or",
          "contains", "starts", "intersects", "within"]
UNOPS = ["neg", "not"]

SPRITE_K = list(range(1, 35))
CAST_K = [1, 2, 3, 4, 5, 6, 7, 8, 9, 10, 11, 17, 18]
VIDEO_K = [12, 13, 14, 15, 16]
SYS_K = [1, 2, 3, 4, 5, 6, 8, 9, 10, 11, 0x13, 0x17, 0x18, 0x19, 0x1a, 0x1b, 0x1d, 0x1e, 0x1f, 0x20, 0x21, 0x22]
KEY_NAMES = ["commandDown", "shiftDown", "controlDown", "optionDown", "key", "keyCode", "stillDown", "date", "time",
             "labelList", "lastClick", "lastEvent", "lastKey", "lastRoll", "machineType", "mouseCast", "mouseChar", "mouseDown",
             "mouseH", "mouseItem", "mouseLine", "mouseUp", "mouseV", "mouseWord", "doubleClick", "clickOn", "movie", "pathName",
             "movieFileSize", "movieFileFreeSize", "pauseState", "result", "selection", "stageBottom", "stageLeft", "stageRight",
             "stageTop", "ticks", "maxinteger", "multiSound"]
MOVIE_NAMES = ["actorList", "itemDelimiter", "frameLabel", "updateMovieEnabled", "cpuHogTicks", "romanLingo", "traceLoad",
               "traceLogFile", "movieName", "moviePath"]
EXT_FUNCS = ["random", "length", "offset", "rect", "point", "script", "objectp", "label", "marker", "abs", "string", "value",
             "count2", "soundBusy", "window", "birth2", "myFunc", "otherFunc"]
EXT_CMDS = ["put", "beep", "updateStage", "puppetTempo", "installMenu", "addProp", "deleteProp", "open", "nothing", "pause",
            "go", "alert", "doIt", "append", "return"]
SYMS = ["name", "surname", "StackUnderflow", "alpha", "beta", "mname", "mget", "zz9", "loop", "next", "stop", "close"]
METHODS = ["mReset", "mPush", "mPop", "mget", "mput", "mname", "mShow"]
STRINGS = ["", "a", "hello", "Hello world!", "x y", "it's", "100%", "a,b;c", "(paren)", "[br]", "#hash", "-- not a comment", "- -",
           "val=", "3.5", "the of to", "end", "\r", "\t", "\x08", "\x03", "\""]
INTS = [0, 1, 2, 5, 9, 10, 42, 100, 127, 128, 129, 255, 256, 1000, 32767, 32768, 65535, 65536, 70000, 2147483647]
FLOATS = [(30, 1), (5, 1), (3001, 3), (15, 1), (25, 2), (1, 1), (125, 3), (100001, 2), (314159, 5), (12345678, 4), (7, 3),
          (1234567890123456, 16), (30000000000000004, 16), (1000000000000001, 15)]    # 16-17 significant digits (exponent notation is C11's: the reference reader of C02 reads plain decimals only)
LOCALS = ["x", "y", "z", "myVar", "counter", "tmp", "val", "aList", "str1", "idx"]
PARAMS = ["a", "b", "c", "whichObject", "n1"]
GLOBALS = ["gList", "gCount", "myGlobal", "gFlag", "gName"]
PROPS = ["legCount", "wingCount", "myLength", "myMaster", "pSpeed"]
JUNK_NAMES = ["¬", "café", "", " ", "two words", "x" * 40, "123", "the", "end", "ÿþ", "-", "\"q\"", "exitFrame", "startMovie"]


class Gen:
    """random programs; every choice comes from the one rng"""

    def __init__(self, rng, kind="plain"):
        self.rng = rng
        self.kind = kind            # plain | props | factory
        self.globals_hdr = []
        self.props = []
        self.handlers = []          # handler names of the script (for local calls)

    # ---- leaves
    def leaf(self, env, k=None):
        r = self.rng
        kinds = ["int", "int", "str", "float", "sym", "loc", "loc", "param", "glob", "key", "mov", "the0"]
        if env.get("props"):
            kinds += ["prop", "prop"]
        if env.get("method"):
            kinds.append("me")
        k = k or r.choice(kinds)
        if k == "int":
            return ["i", r.choice(INTS)]
        if k == "str":
            return ["s", S(r.choice(STRINGS))]
        if k == "float":
            d, s_ = r.choice(FLOATS)
            return ["f", d, s_]
        if k == "sym":
            return ["y", r.choice(SYMS)]
        if k == "loc":
            return ["l", r.choice(env["locals"])]
        if k == "param":
            return ["p", r.choice(env["params"])] if env["params"] else ["l", r.choice(env["locals"])]
        if k == "glob":
            return ["g", r.choice(env["globals"])]
        if k == "prop":
            return ["r", r.choice(env["props"])] if env.get("props") else ["l", r.choice(env["locals"])]
        if k == "me":
            return "me" if env.get("method") else ["l", r.choice(env["locals"])]
        if k == "key":
            return ["key", r.choice(KEY_NAMES)]
        if k == "mov":
            return ["mov", r.choice(MOVIE_NAMES)]
        if k == "the0":
            c = r.random()
            if c < 0.35:
                return ["the", "special", r.randrange(0, 12)]
            if c < 0.8:
                return ["the", "sys", r.choice(SYS_K)]
            return ["the", "count", r.choice([1, 2, 3])]
        raise ValueError(k)

    def index_leaf(self, env):
        """an object index the translator is expected to keep: literal or variable"""
        r = self.rng
        c = r.random()
        if c < 0.5:
            return ["i", r.choice([1, 2, 3, 7, 48, 120, 200, 1000])]
        if c < 0.65:
            return ["s", S(r.choice(["Fish.mov", "button", "a b"]))]
        return self.leaf(env, r.choice(["loc", "param", "glob"]))

    def obj_index(self, env, depth):
        """object index: mostly literal/variable, sometimes an arbitrary expression (property C02 quantifies over those too)"""
        if depth > 0 and self.rng.random() < 0.25:
            return self.expr(env, depth - 1)
        return self.index_leaf(env)

    # ---- expressions
    def expr(self, env, depth):
        r = self.rng
        if depth <= 0 or r.random() < 0.18:
            return self.leaf(env)
        c = r.random()
        d = depth - 1
        if c < 0.34:
            return ["b", r.choice(BINOPS), self.expr(env, d), self.expr(env, d)]
        if c < 0.42:
            return ["u", r.choice(UNOPS), self.expr(env, d)]
        if c < 0.46:
            return ["fld", self.expr(env, d)]
        if c < 0.56:
            f = r.choice(EXT_FUNCS + [h for h in self.handlers][:3])
            n = r.choice([0, 1, 1, 2, 3])
            return ["c", f] + [self.expr(env, d) for _ in range(n)]
        if c < 0.60:
            return ["m", self.receiver(env), r.choice(METHODS)] + [self.expr(env, d) for _ in range(r.choice([0, 1, 2]))]
        if c < 0.66:
            return ["li"] + [self.expr(env, d) for _ in range(r.choice([0, 1, 2, 3, 5]))]
        if c < 0.70:
            n = r.choice([0, 1, 2, 3])
            out = ["pl"]
            for _ in range(n):
                out += [["y", r.choice(SYMS)] if r.random() < 0.8 else self.expr(env, d), self.expr(env, d)]
            return out
        if c < 0.84:
            return self.the_expr(env, d)
        if c < 0.88:
            return ["op", r.choice(["legCount", "center", "crop", "fileName", "hasTail"]), self.expr(env, d)]
        return self.chunk(env, d, self.expr(env, d))

    def the_expr(self, env, d):
        r = self.rng
        c = r.random()
        if c < 0.22:
            return ["the", "sprite", r.choice(SPRITE_K), self.obj_index(env, d)]
        if c < 0.38:
            return ["the", "cast", r.choice(CAST_K), self.obj_index(env, d)]
        if c < 0.46:
            return ["the", "field", r.choice(CAST_K), self.expr(env, d) if r.random() < 0.3 else self.index_leaf(env)]
        if c < 0.52:
            return ["the", "sound", 1, self.obj_index(env, d)]
        if c < 0.58:
            return ["the", "video", r.choice(VIDEO_K), self.obj_index(env, d)]
        if c < 0.66:
            return ["the", "menuItem", r.choice([1, 2, 3, 4]), self.obj_index(env, d), self.obj_index(env, d)]
        if c < 0.72:
            return ["the", "menu", r.choice([1, 2]), self.obj_index(env, d)]
        if c < 0.84:
            return ["the", "numChunks", r.choice([1, 2, 3, 4]), self.expr(env, d)]
        if c < 0.94:
            return ["the", "special", r.choice([12, 13, 14, 15]), self.expr(env, d)]
        return self.leaf(env, "the0")

    def chunk(self, env, d, base, target=False):
        """chunk expression, sometimes a chain (merged into one slice when granularity increases outwards-in);
        put / delete / hilite targets are always a single slice"""
        r = self.rng
        kinds = ["char", "word", "item", "line"]
        n = r.choice([1, 1, 1, 2, 2, 3, 4])
        e = base
        ks = [r.choice(kinds) for _ in range(n)]
        if target or r.random() < 0.7:
            ks = sorted(set(ks), key=kinds.index, reverse=True)     # line innermost ... char outermost: one slice
        for k in ks:
            a = self.expr(env, min(d, 1)) if r.random() < 0.3 else ["i", r.choice([1, 2, 3, 12, 62])]
            if a == ["i", 0]:
                a = ["i", 1]
            b = ["i", 0] if r.random() < 0.6 else (self.expr(env, min(d, 1)) if r.random() < 0.3 else ["i", r.choice([1, 2, 4, 9])])
            e = ["ch", k, a, b, e]
        return e

    # ---- statements (straight-line)
    def lvalue_var(self, env):
        r = self.rng
        ks = ["loc", "loc", "glob", "param"] + (["prop"] if env.get("props") else [])
        return self.leaf(env, r.choice(ks))

    def stmt(self, env, depth, in_tell=False):
        r = self.rng
        c = r.random()
        e = lambda: self.expr(env, depth)
        if c < 0.22:
            return ["set", self.lvalue_var(env), e()]
        if c < 0.27:
            return ["set", ["mov", r.choice(MOVIE_NAMES)], e()]
        if c < 0.40:
            t = r.random()
            if t < 0.25:
                lv = ["the", "sprite", r.choice(SPRITE_K), self.obj_index(env, depth - 1)]
            elif t < 0.4:
                lv = ["the", "cast", r.choice(CAST_K), self.obj_index(env, depth - 1)]
            elif t < 0.5:
                lv = ["the", "field", r.choice(CAST_K), self.index_leaf(env)]
            elif t < 0.58:
                lv = ["the", "video", r.choice(VIDEO_K), self.obj_index(env, depth - 1)]
            elif t < 0.64:
                lv = ["the", "sound", 1, self.obj_index(env, depth - 1)]
            elif t < 0.74:
                lv = ["the", "menuItem", r.choice([1, 2, 3, 4]), self.obj_index(env, depth - 1), self.obj_index(env, depth - 1)]
            elif t < 0.86:
                lv = ["the", "sys", r.choice(SYS_K)]
            else:
                lv = ["the", "special", r.randrange(0, 6)]
            return ["set", lv, e()]
        if c < 0.44:
            return ["set", ["op", r.choice(["center", "crop", "legCount"]), self.expr(env, max(0, depth - 1))], e()]
        if c < 0.56:
            return self.put_stmt(env, depth)
        if c < 0.60:
            return ["del", self.chunk(env, 1, self.put_base(env), target=True)]
        if c < 0.63:
            return ["hil", self.chunk(env, 1, ["fld", self.index_leaf(env)], target=True) if r.random() < 0.8 else ["fld", self.index_leaf(env)]]
        if c < 0.88:
            if in_tell or r.random() < 0.75 or not self.handlers:
                f = r.choice(EXT_CMDS)
            else:
                f = r.choice(self.handlers)
            n = r.choice([0, 1, 1, 2, 3])
            if f == "return":
                n = min(n, 1)
            if f == "go":
                # `go` takes a frame number / label (or one of the words loop, next, previous: generated separately)
                return ["call", f, r.choice([["i", r.choice([1, 5, 20])], ["s", S("square")], self.leaf(env, "loc")])]
            return ["call", f] + [self.expr(env, depth) for _ in range(n)]
        if c < 0.94:
            return ["mcall", self.receiver(env), r.choice(METHODS)] + [self.expr(env, depth) for _ in range(r.choice([0, 1, 2]))]
        if c < 0.96:
            return ["call", "sound", ["y", r.choice(["playFile", "fadeIn", "fadeOut", "stop", "close"])], ["i", r.choice([1, 2])]] + \
                ([["s", S("Start")]] if r.random() < 0.3 else [])
        if c < 0.98:
            return ["call", "go", ["y", r.choice(["loop", "next", "previous"])]]
        return "exit"

    def ref_global(self, env):
        """a global referenced by name (`46 n`): normally one declared at script level; rarely one that only this handler declares
        (the handler's own globals table names it, see feature F120)"""
        r = self.rng
        if self.globals_hdr and r.random() < 0.5:
            return ["g", r.choice(self.globals_hdr)]
        return ["g", r.choice(env["globals"])]

    def receiver(self, env):
        r = self.rng
        objs = [["l", o] for o in env["objs"]]
        if env["params"]:
            objs.append(["p", r.choice(env["params"])])
        if env.get("method"):
            objs += ["me", "me"]
        g = self.ref_global(env)
        if g:
            objs.append(g)
        return r.choice(objs)

    def put_base(self, env):
        r = self.rng
        c = r.random()
        if c < 0.45:
            return ["fld", self.index_leaf(env)]
        g = self.ref_global(env) if c >= 0.8 else None
        return g or ["l", r.choice(env["locals"])]

    def put_stmt(self, env, depth):
        r = self.rng
        mode = r.choice(["into", "after", "before"])
        v = self.expr(env, depth)
        c = r.random()
        if c < 0.25:
            return ["put", mode, v, ["fld", self.expr(env, 1) if r.random() < 0.3 else self.index_leaf(env)]]
        if c < 0.45 and mode != "into":
            return ["put", mode, v, ["l", r.choice(env["locals"])]]
        return ["put", mode, v, self.chunk(env, 1, self.put_base(env), target=True)]

    def tell_stmt(self, env, depth, nest=0):
        r = self.rng
        body = [self.stmt(env, depth, in_tell=True) for _ in range(r.choice([1, 2, 3]))]
        body = [b for b in body if not (isinstance(b, list) and b[0] == "mcall")] or [["call", "updateStage"]]
        if nest < 2 and r.random() < 0.25:
            body.insert(r.randrange(len(body) + 1), self.tell_stmt(env, depth, nest + 1))
        return ["tell", ["c", "window", ["s", S(r.choice(["tour", "tool"]))]]] + body

    # ---- handlers / scripts
    def env_for(self, nparams, method=False):
        r = self.rng
        params = r.sample(PARAMS, nparams)
        locs = r.sample(LOCALS, r.choice([1, 2, 3, 5]))
        return dict(params=params, locals=locs, objs=locs[:r.choice([1, 1, 2])], globals=r.sample(GLOBALS, 2),
                    props=list(self.props), method=method)

    def handler(self, name, body_fn, nparams=None):
        r = self.rng
        method = self.kind == "factory"
        env = self.env_for(r.choice([0, 1, 2, 3]) if nparams is None else nparams, method)
        # locals used as method-call receivers are objects created first (a receiver must be a variable the text shows assigned)
        body = [["set", ["l", o], ["c", "birth2", ["i", k + 1]]] for k, o in enumerate(env["objs"])] + body_fn(env)
        return ["method" if method else "on", name, list(env["params"])] + body

    def script(self, handlers):
        fac = "makeStack" if self.kind == "factory" else "-"
        return ["script", ["factory", fac], ["props"] + self.props, ["globals"] + self.globals_hdr] + handlers


def handler_names(n, rng, factory=False):
    base = ["mnew", "mReset", "mPush", "mShow", "mDo", "mGo", "mRun", "mCalc", "mAux", "mLast"] if factory else \
        ["exitFrame", "startMovie", "mouseUp", "keyDown", "doWork", "helper", "calc", "fnA", "fnB", "fnC"]
    out = base[:n]
    k = 0
    while len(out) < n:
        out.append(("m" if factory else "h") + "Extra%d" % k); k += 1
    return out


def name_table(rng, used_hint=()):
    """an arbitrary prefix of the name table: junk entries, some of the names the script will use (shuffled), duplicates"""
    pre = []
    if rng.random() < 0.5:
        pre += rng.sample(JUNK_NAMES, rng.randrange(0, 6))
    if rng.random() < 0.6:
        pool = list(used_hint) + LOCALS + PARAMS + GLOBALS + PROPS + SYMS + EXT_CMDS + EXT_FUNCS + METHODS + KEY_NAMES[:10] + MOVIE_NAMES
        pre += rng.sample(pool, rng.randrange(0, min(40, len(pool))))
    if rng.random() < 0.25:
        pre += ["pad%d" % i for i in range(rng.choice([10, 60, 120]))]
    if rng.random() < 0.2 and pre:
        pre += [rng.choice(pre)]
    rng.shuffle(pre)
    # entry 0 doubles as the third fixed slot of a factory's property table (observed in the fixtures): keep property names away from it
    if pre and pre[0] in MOVIE_NAMES + KEY_NAMES + PROPS:
        pre = ["exitFrame"] + pre
    return pre[:200]


# ---- walking trees (features for known-finding matchers)

def walk(t):
    """yields every sub-list of a tree (pre-order)"""
    if isinstance(t, list):
        yield t
        for x in t:
            yield from walk(x)


NAMED_CONST_VALUES = ("\x08", "\x03", "\"", "\r", "\t")


def is_index_kept(e):
    """object index forms the translator keeps verbatim: literal or variable (a string that is spelled as a named constant is not:
    only the node's raw name survives, so QUOTE becomes the unreadable three-quote literal)"""
    if isinstance(e, list) and e and e[0] == "s":
        return e[1][1] not in NAMED_CONST_VALUES
    if isinstance(e, list) and e and e[0] == "i":
        return e[1] < 32768
    return e == "me" or (isinstance(e, list) and e and e[0] in ("f", "l", "p", "g", "r"))


OBJ_TABLES = {"sprite": 1, "cast": 1, "sound": 1, "video": 1, "menu": 1, "menuItem": 2}


def named_refs(body):
    """globals referenced by name (`46 n`): method-call receivers and chunk put/delete bases; and globals read/written normally"""
    refs, normal = set(), set()
    def base_of(t):
        while isinstance(t, list) and t and t[0] == "ch":
            t = t[4]
        return t
    def visit(t, skip=None):
        if not isinstance(t, list) or not t:
            return
        if t[0] in ("m", "mcall") and isinstance(t[1], list) and t[1][0] == "g":
            refs.add(t[1][1])
            for x in t[3:]:
                visit(x)
            return
        if t[0] in ("put", "del"):
            tgt = t[3] if t[0] == "put" else t[1]
            b = base_of(tgt)
            if isinstance(tgt, list) and tgt[0] == "ch" and isinstance(b, list) and b[0] == "g":
                refs.add(b[1])
                # visit everything except that base
                def visit_ch(c):
                    if c is b:
                        return
                    if isinstance(c, list) and c and c[0] == "ch":
                        visit(c[2]); visit(c[3]); visit_ch(c[4])
                    else:
                        visit(c)
                if t[0] == "put":
                    visit(t[2])
                visit_ch(tgt)
                return
        if t[0] == "g" and len(t) == 2 and isinstance(t[1], str):
            normal.add(t[1]); return
        for x in t:
            visit(x)
    for st in body:
        visit(st)
    return refs, normal


def local_order(body):
    """locals in first-appearance (text) order, as lean/Drx/Spec/Compile.lean Handler.locals computes them"""
    out = []
    def visit(t):
        if isinstance(t, list):
            if len(t) == 2 and t[0] == "l" and isinstance(t[1], str):
                if t[1] not in out:
                    out.append(t[1])
                return
            if t and t[0] == "put" and len(t) == 4:
                visit(t[2]); visit(t[3]); return
            for x in t:
                visit(x)
    for st in body:
        visit(st)
    return out


# defect classes repaired in /repo (fix: commits): their programs are ordinary inputs now, no matcher covers them
# names whose first argument the decompiler takes for a list: a symbol there is printed as a global variable (gv_as_sym, F140)
LIST_FUNCTIONS = ("findpos", "findposnear", "getaprop", "getone", "getpos", "getpropat", "getprop")
LIST_FUNCTION_NAMES = ["findPos", "findPosNear", "getaProp", "getOne", "getPos", "getPropAt", "getProp"]
# keys of ast.variable.KNOWN_PROPERTIES: movie / system properties that a script may also DECLARE as its own property (F139)
KNOWN_PROPERTY_NAMES = ["actorList", "floatPrecision", "mouseDownScript", "mouseUpScript", "keyDownScript", "keyUpScript", "timeoutScript",
                        "itemDelimiter", "movieName", "moviePath", "romanLingo", "cpuHogTicks", "traceLoad", "traceLogFile"]
# legal Lingo identifiers that JavaScript reserves (F141): copied unchanged, `var var;` is a SyntaxError
JS_RESERVED_IDS = ["var", "function", "class", "extends", "break", "const", "try", "catch", "switch", "case", "default", "typeof",
                   "void", "this", "null", "super", "enum", "import", "finally", "throw", "instanceof", "debugger"]
# reserved only in strict-mode code (class bodies: property scripts and factories); valid names in the functions of a plain script
JS_STRICT_RESERVED_IDS = ["let", "static", "yield", "public", "private", "protected", "interface", "package", "implements"]


def border_scripts(rng, tier):
    """identifier pools at the border of the translators' correspondences: declared properties named like movie properties (read and
    written), list functions with symbol / non-symbol first arguments, JavaScript's reserved words as Lingo identifiers"""
    out = []
    n = [0]
    def num():
        n[0] += 1
        return n[0]
    # declared properties named like movie / system properties, in property scripts and factories
    for kind in ("props", "factory"):
        for i in range(0, len(KNOWN_PROPERTY_NAMES), 3):
            names = KNOWN_PROPERTY_NAMES[i:i + 3]
            hs = []
            for j, nm in enumerate(names):
                body = [["set", ["r", nm], ["i", num()]], ["set", ["l", "x"], ["r", nm]], ["call", "put", ["b", "concat", ["r", nm], ["s", S("a")]]],
                        ["set", ["r", nm], ["b", "add", ["r", nm], ["i", num()]]], ["if", ["b", "lt", ["r", nm], ["i", num()]], [["set", ["r", names[0]], ["r", nm]]], []]]
                hs.append([("method" if kind == "factory" else "on"), ("mGet%d" % j if kind == "factory" else "h%d" % j), ["v"]] + body)
            if kind == "factory":
                hs = [["method", "mnew", [], ["set", ["r", names[0]], ["i", 0]]]] + hs
            out.append(dict(tree=["script", ["factory", "makeIt" if kind == "factory" else "-"], ["props"] + names, ["globals"]] + hs, pre=[], kind="border-known-properties"))
    # `set the <name> = v` / `the <name>` (opcodes 60 / 5f) where <name> is ALSO a declared property, a global, a local or a parameter
    # of the script (finding F150: opcode 60 took the declared-property branch of opcode 50 and printed `set foo = 5`): plain
    # names, names of movie properties and names the JavaScript side knows an owner for
    for kind in ("props", "factory"):
        for nm in ["foo", "score", "myProp"] + MOVIE_NAMES[:7]:
            hs = [[("method" if kind == "factory" else "on"), ("mSet" if kind == "factory" else "hSet"), ["v"],
                   ["set", ["mov", nm], ["i", num()]], ["set", ["r", nm], ["i", num()]], ["set", ["l", "x"], ["mov", nm]], ["set", ["l", "x"], ["r", nm]],
                   ["set", ["mov", nm], ["b", "add", ["mov", nm], ["r", nm]]]]]
            if kind == "factory":
                hs = [["method", "mnew", [], ["set", ["r", nm], ["i", 0]]]] + hs
            out.append(dict(tree=["script", ["factory", "makeIt" if kind == "factory" else "-"], ["props", nm], ["globals"]] + hs, pre=[], kind="border-the-declared-name"))
    for nm in ["foo", MOVIE_NAMES[0], MOVIE_NAMES[3]]:
        out.append(dict(tree=["script", ["factory", "-"], ["props"], ["globals", nm],
                              ["on", "hG", ["v"], ["set", ["mov", nm], ["i", num()]], ["set", ["g", nm], ["mov", nm]], ["set", ["l", "x"], ["g", nm]]],
                              ["on", "hL", [nm], ["set", ["mov", nm], ["p", nm]], ["set", ["l", "x"], ["mov", nm]]]], pre=[], kind="border-the-declared-name"))
    # a name at entry 0 / 1 / last of the name table in every role: a handler-level global referenced ONLY by name (46 n: chunk put
    # target, method-call receiver), a script-level global, a property, a parameter, a local, a symbol, a called handler
    # (seeded change C02-m16: `0 < n` instead of `0 <= n` in one of the bounds checks of the handler's global-names table)
    for pos in ("first", "second", "absent"):
        for nm in ("gText", "zz9"):
            pre0 = {"first": [nm, "pad1"], "second": ["pad0", nm], "absent": []}[pos]
            hs = [["on", "hByName", ["v"], ["put", "into", ["s", S("a")], ["ch", "char", ["i", 1], ["i", 0], ["g", nm]]], ["mcall", ["g", nm], "mReset"]],
                  ["on", "hRead", ["v"], ["set", ["l", "x"], ["g", nm]], ["put", "after", ["s", S("b")], ["ch", "word", ["i", 2], ["i", 0], ["g", nm]]]],
                  ["on", "hSym", [nm], ["set", ["l", "x"], ["y", nm]], ["set", ["l", "y"], ["p", nm]]],
                  ["on", nm, ["v"], ["set", ["l", "x"], ["i", num()]], ["call", nm, ["l", "x"]]]]
            out.append(dict(tree=["script", ["factory", "-"], ["props"], ["globals"]] + hs, pre=pre0, kind="border-name-table-positions"))
            out.append(dict(tree=["script", ["factory", "-"], ["props", nm], ["globals"]] + [["on", "hP", ["v"], ["set", ["r", nm], ["i", num()]], ["set", ["l", "x"], ["r", nm]]]], pre=pre0, kind="border-name-table-positions"))
            out.append(dict(tree=["script", ["factory", "-"], ["props"], ["globals", nm]] + [["on", "hG", ["v"], ["set", ["g", nm], ["i", num()]], ["del", ["ch", "char", ["i", 1], ["i", 0], ["g", nm]]]]], pre=pre0, kind="border-name-table-positions"))
    # list functions: first argument a symbol (F140: printed as a global) or anything else (must be exact)
    firsts = [["y", "foo"], ["y", "name"], ["l", "lst"], ["g", "gList"], ["p", "v"], ["li", ["i", 1], ["i", 2]], ["pl", ["y", "a"], ["i", 1]]]
    seconds = [["y", "name"], ["i", 3], ["s", S("k")], ["l", "x"]]
    for fn in LIST_FUNCTION_NAMES + (["GETONE", "getprop"] if tier != "quick" else []):
        hs = []
        for a in firsts:
            for b in (seconds if tier != "quick" else seconds[:2]):
                hs.append([["set", ["l", "x"], ["c", fn, a, b]]])
                hs.append([["call", "put", ["c", fn, a, b], ["c", "count", ["l", "lst"]]]])
        # a function that is NOT a list function keeps its symbol
        hs.append([["set", ["l", "x"], ["c", "getAt", ["y", "foo"], ["i", 1]]], ["set", ["l", "x"], ["c", "count", ["y", "foo"]]]])
        for i in range(0, len(hs), 8):
            out.append(dict(tree=["script", ["factory", "-"], ["props"], ["globals", "gList"]] +
                            [["on", "h%d" % j, ["v"]] + b for j, b in enumerate(hs[i:i + 8])], pre=[], kind="border-list-functions"))
    # `the P of <obj>` (61 / 62) with objects whose names look like the decompiler's own owner nodes (F142): leading underscore, tell_obj
    odd = ["_y", "_movie", "_system", "_", "__x", "tell_obj", "me2", "x_"]
    for kind in ("plain", "props"):
        hs = []
        for w in odd:
            for vk in ("l", "p", "g"):
                o = [vk, w]
                params = [w] if vk == "p" else ["v"]
                body = ([["set", o, ["i", num()]]] if vk != "p" else []) + \
                       [["set", ["l", "x"], ["op", "foo", o]], ["set", ["op", "bar", o], ["i", num()]],
                        ["call", "put", ["b", "add", ["op", "foo", o], ["i", 1]]],
                        ["tell", ["c", "window", ["s", S("a")]], ["set", ["op", "foo", o], ["the", "sys", 0x1b]], ["set", ["the", "sys", 0x1b], ["op", "foo", o]]]]
                if kind != "plain":
                    body = body[:-1]          # F131: no tell blocks in class bodies
                hs.append(["on", "h%d" % len(hs), params] + body)
        for i in range(0, len(hs), 6):
            out.append(dict(tree=["script", ["factory", "-"], ["props"] + (["pSpeed"] if kind == "props" else []), ["globals"]] +
                            [h[:1] + ["h%d" % j] + h[2:] for j, h in enumerate(hs[i:i + 6])], pre=[], kind="border-underscore-objects"))
    # JavaScript's reserved words as local variables, parameters and handler names (plain scripts: every handler is a function)
    words = (JS_RESERVED_IDS + JS_STRICT_RESERVED_IDS) if tier != "quick" else (JS_RESERVED_IDS[::3] + JS_STRICT_RESERVED_IDS[::3])
    for w in words:
        # the same words in a method of a property script (strict-mode code)
        out.append(dict(tree=["script", ["factory", "-"], ["props", "pSpeed"], ["globals"],
                              ["on", "h0", ["v"], ["set", ["l", w], ["r", "pSpeed"]], ["call", "put", ["l", w]]]], pre=[], kind="border-reserved-words"))
        hs = [["on", "h0", ["v"], ["set", ["l", w], ["i", num()]], ["call", "put", ["b", "add", ["l", w], ["i", 1]]]],
              ["on", "h1", [w], ["call", "put", ["p", w]]],
              ["on", w, ["v"], ["call", "put", ["p", "v"]]],
              ["on", "h3", ["v"], ["set", ["g", w], ["i", num()]], ["call", "put", ["y", w]], ["set", ["l", "x"], ["op", w, ["p", "v"]]]]]
        for h in hs:          # one script per handler: an invalid function makes the whole text invalid
            out.append(dict(tree=["script", ["factory", "-"], ["props"], ["globals"], h], pre=[], kind="border-reserved-words"))
    return out


FIXED_FEATURES = {"F21", "F22", "F39", "F120", "F121", "F122", "F124", "F125", "F139", "F142"}


def features(h, script_globals=(), handler_names=()):
    """root-cause features of one handler tree (used by the narrow matchers of the open findings)"""
    f = set()
    body = h[3:] if (isinstance(h, list) and h and h[0] in ("on", "method")) else h
    refs, normal = named_refs(body)
    if any(g not in script_globals and g not in normal for g in refs):
        f.add("F120")
    # symbols spelled like Director's keyword-symbols print without '#': fine as the argument of go / first argument of sound,
    # a variable reference everywhere else
    def syms(t, ok):
        if isinstance(t, list) and t:
            if t[0] == "y" and len(t) == 2 and t[1] in ("loop", "next", "previous", "playFile", "fadeIn", "fadeOut", "stop", "close"):
                if not ok:
                    f.add("F124")
                return
            if t[0] == "call" and len(t) >= 3 and t[1] in ("go", "sound"):
                syms(t[2], t[1] == "sound" or (len(t) == 3 and isinstance(t[2], list) and t[2][0] == "y" and t[2][1] in ("loop", "next", "previous")))
                for x in t[3:]:
                    syms(x, False)
                return
            for x in t:
                syms(x, False)
    for st in body:
        syms(st, False)
    locs = local_order(body)
    for t in walk(body):
        if len(t) >= 2 and t[0] in ("put", "del"):
            tgt = t[3] if t[0] == "put" else t[1]
            if isinstance(tgt, list) and tgt[0] == "ch":
                b = tgt
                while isinstance(b, list) and b[0] == "ch":
                    b = b[4]
                if isinstance(b, list) and b[0] == "l" and locs and b[1] != locs[0]:
                    f.add("F39")
    for t in walk(body):
        if len(t) < 2 or not isinstance(t[0], str):
            continue
        tag = t[0]
        if tag == "the" and t[1] in OBJ_TABLES:
            if any(not is_index_kept(a) for a in t[3:3 + OBJ_TABLES[t[1]]]):
                f.add("F20")
        if tag == "set" and isinstance(t[1], list) and t[1][:2] == ["the", "field"]:
            f.add("F38")
            if not is_index_kept(t[1][3]):
                f.add("F20")
        if tag == "u" and t[1] == "neg" and isinstance(t[2], list) and t[2][:2] == ["u", "neg"]:
            f.add("F21")
        if tag == "b" and t[1] == "starts":
            f.add("F40")
        if tag == "tell":
            if any(isinstance(x, list) and x and x[0] == "tell" for b in t[2:] for x in walk(b)):
                f.add("F22")
        if tag == "mov" and t[1] == "ancestor":
            f.add("F124")
        if tag == "op" and isinstance(t[2], list) and len(t[2]) == 2 and t[2][0] in ("l", "p", "g", "r") and isinstance(t[2][1], str) \
                and (t[2][1].startswith("_") or t[2][1] == "tell_obj"):
            f.add("F142")
        if tag == "c" and len(t) >= 3 and t[1].lower() in LIST_FUNCTIONS and isinstance(t[2], list) and t[2][:1] == ["y"]:
            f.add("F140")
        if tag == "c" and len(t) == 2 and t[1] not in handler_names:
            f.add("F125")
        if tag == "op" and (t[2] == "me" or (isinstance(t[2], list) and t[2][:1] in (["p"], ["l"], ["g"]) and t[2][1] == "me")):
            f.add("F122")
        if tag == "op" and isinstance(t[2], list) and t[2][0] == "i" and t[2][1] >= 32768:
            f.add("F121")
    return sorted(x for x in f if x not in FIXED_FEATURES)

# ------------------------------------------------------------------------------------------------ C03: control-flow skeletons
# skeleton item: "s" (simple statement) | "x" (exit repeat) | (kind, body) | ("ifelse", then_body, else_body)
LOOPS = ("while", "up", "down", "in")
COMPOUNDS = ("if", "ifelse") + LOOPS


def skeleton_bodies(k, maxlen, in_loop, memo, minlen=1, empties=False):
    """all bodies (tuples of items) with EXACTLY k compound constructs and minlen..maxlen items; with `empties`, the bodies of
    compound constructs may also be empty (except the else branch: `if c then t else end if` IS the if without else)"""
    key = (k, maxlen, in_loop, minlen, empties)
    if key in memo:
        return memo[key]
    out = []
    lo = 0 if empties else 1
    def items(kk):
        """single items using exactly kk compounds"""
        if kk == 0:
            return ["s"] + (["x"] if in_loop else [])
        res = []
        inner = kk - 1
        for kind in COMPOUNDS:
            il = in_loop or kind in LOOPS
            if kind == "ifelse":
                for a in range(inner + 1):
                    for t in skeleton_bodies(a, maxlen, il, memo, lo, empties):
                        for e in skeleton_bodies(inner - a, maxlen, il, memo, 1, empties):
                            res.append(("ifelse", t, e))
            else:
                for b in skeleton_bodies(inner, maxlen, il, memo, lo, empties):
                    res.append((kind, b))
        return res
    def seqs(n, kk):
        """sequences of n items using exactly kk compounds"""
        if n == 0:
            return [()] if kk == 0 else []
        res = []
        for a in range(kk + 1):
            for it in items(a):
                for rest in seqs(n - 1, kk - a):
                    res.append((it,) + rest)
        return res
    for n in range(minlen, maxlen + 1):
        out += seqs(n, k)
    # a body never consists of exit repeat followed by anything (dead code is not what a compiler emits for structured source;
    # it is still legal Lingo, so keep it) -- no pruning
    memo[key] = out
    return out


def skeletons(kmax, maxlen=2, empties=False):
    memo = {}
    for k in range(0, kmax + 1):
        for b in skeleton_bodies(k, maxlen, False, memo, 1, empties):
            yield b


class SkelBuilder:
    """skeleton -> statement trees with unique markers (so that 'every statement once, in order, same construct' is tree equality)"""
    def __init__(self):
        self.n = 0
        self.loops = 0

    def num(self):
        self.n += 1
        return self.n

    def body(self, items):
        return [self.item(it) for it in items]

    def item(self, it):
        if it == "s":
            return ["call", "put", ["i", self.num()]]
        if it == "x":
            return "exitrep"
        kind = it[0]
        if kind == "if":
            c = ["b", "lt", ["l", "c"], ["i", self.num()]]
            return ["if", c, self.body(it[1]), []]
        if kind == "ifelse":
            c = ["b", "gt", ["l", "c"], ["i", self.num()]]
            return ["if", c, self.body(it[1]), self.body(it[2])]
        self.loops += 1
        v = ["l", "i%d" % self.loops]
        if kind == "while":
            c = ["b", "ne", ["l", "c"], ["i", self.num()]]
            return ["while", c] + self.body(it[1])
        if kind == "up":
            return ["with", v, ["i", 1], ["i", self.num() + 10], "up"] + self.body(it[1])
        if kind == "down":
            return ["with", v, ["i", self.num() + 10], ["i", 1], "down"] + self.body(it[1])
        if kind == "in":
            return ["in", v, ["li", ["i", self.num()], ["i", 2]]] + self.body(it[1])
        raise ValueError(kind)


def skel_handler(items, name="h"):
    b = SkelBuilder()
    return ["on", name, []] + b.body(items)


def skel_str(items):
    """compact text of a skeleton, e.g. up[s if[x] s]"""
    out = []
    for it in items:
        if isinstance(it, str):
            out.append(it)
        elif it[0] == "ifelse":
            out.append("ifelse[%s|%s]" % (skel_str(it[1]), skel_str(it[2])))
        else:
            out.append("%s[%s]" % (it[0], skel_str(it[1])))
    return " ".join(out)


def skel_has_exit(items):
    return any(it == "x" or (not isinstance(it, str) and any(skel_has_exit(b) for b in it[1:])) for it in items)


# ---- structural classes of exit-repeat configurations the reconstruction heuristic gets wrong (one open finding each).
# Works on statement trees.  Exact on the exhaustive enumerations (harness/c03.py checks predicted == observed every run).

class _X:
    pass


def _c03_box(stmts):
    out = []
    for st in stmts:
        if st == "exitrep":
            out.append(_X())
        elif isinstance(st, list) and st and st[0] == "if":
            out.append(("ifelse", _c03_box(st[2]), _c03_box(st[3])) if st[3] else ("if", _c03_box(st[2])))
        elif isinstance(st, list) and st and st[0] == "while":
            out.append(("loop", _c03_box(st[2:])))
        elif isinstance(st, list) and st and st[0] == "with":
            out.append(("loop", _c03_box(st[5:]), "with"))
        elif isinstance(st, list) and st and st[0] == "in":
            out.append(("loop", _c03_box(st[3:])))
        elif isinstance(st, list) and st and st[0] == "tell":
            out.append(("tell", _c03_box(st[2:])))
        else:
            out.append("s")
    return out


def _c03_flat(items):
    o = []
    for it in items:
        if it == "s" or isinstance(it, _X):
            o.append(it)
        elif it[0] == "if":
            o.append("jz"); o += _c03_flat(it[1])
        elif it[0] == "ifelse":
            o.append("jz"); o += _c03_flat(it[1]); o.append("ej"); o += _c03_flat(it[2])
        elif it[0] == "tell":
            o.append("tell")         # a tell block is one statement of the list it stands in (its own statements are inside the node)
        else:
            if len(it) > 2:
                o.append("s")        # `repeat with v = a to b` starts with the separate statement `set v = a`
            o.append("loop")
    return o


def _c03_last_is_exit(it):
    if isinstance(it, _X):
        return True
    if it == "s":
        return False
    if it[0] == "if":
        return bool(it[1]) and _c03_last_is_exit(it[1][-1])
    if it[0] == "ifelse":
        return bool(it[2]) and _c03_last_is_exit(it[2][-1])
    return False


def c03_classes(stmts):
    """F23: exit repeat is a direct item of a loop body.
       F24: an if / if-else follows, in the same statement list, an `if` without else whose code ends with an exit-repeat jump
            (unless the list is the body of a loop that lies inside an if branch: such a body is visited twice and repaired).
       F25: exit repeat in an else branch, not rescued (= not the second-to-last instruction-level statement of an enclosing branch).
       F126: exit repeat in a then branch, not rescued (not last item of an if without else, not second-to-last statement of an
             enclosing branch counting the else jump).
       F138: exit repeat is a direct statement of a tell block (the block's statements are a list of their own: F23's situation)."""
    out = set()

    def walk(items, ctx, fixed, ifdepth=0, visits=1):
        """ifdepth: number of if branches between this list and the nearest enclosing loop body (or the handler);
        visits: how often the heuristic scans the nearest enclosing loop / tell body: once with the flat list it is first met in,
        once more for every if branch extracted around it (1 + the ifdepth at the loop); a loop lying DIRECTLY in a loop body is
        scanned again on every further visit of that body. Every visit converts the ifs of the list up to and including the next
        `if ... exit repeat`, whose exit jump it takes for an else jump (F24): an if with `visits` or more such ifs before it in
        the list stays raw."""
        n = len(items)
        need = visits if ctx in ("loop", "tell") else 1
        before = 0
        for i, it in enumerate(items):
            if isinstance(it, _X):
                if ctx == "loop":
                    out.add("F23")
                elif ctx == "tell":
                    out.add("F138")
                elif it in fixed or (ctx == "then" and i == n - 1):
                    pass
                elif ctx == "else":
                    out.add("F25")
                elif ctx in ("then", "thenE"):
                    out.add("F126")
            elif it != "s":
                k = it[0]
                if k in ("if", "ifelse") and before >= need:
                    out.add("F24")
                if k == "if":
                    f = _c03_flat(it[1]); fx = set(fixed)
                    if len(f) >= 2 and isinstance(f[-2], _X):
                        fx.add(f[-2])
                    walk(it[1], "then", fx, ifdepth + 1, visits)
                    if _c03_last_is_exit(it):
                        before += 1
                elif k == "ifelse":
                    f = _c03_flat(it[1]) + ["ej"]; fx = set(fixed)
                    if len(f) >= 2 and isinstance(f[-2], _X):
                        fx.add(f[-2])
                    walk(it[1], "thenE", fx, ifdepth + 1, visits)
                    f = _c03_flat(it[2]); fx2 = set(fixed)
                    if len(f) >= 2 and isinstance(f[-2], _X):
                        fx2.add(f[-2])
                    walk(it[2], "else", fx2, ifdepth + 1, visits)
                else:
                    # the statements of a loop / tell block are a list of their own
                    walk(it[1], "tell" if k == "tell" else "loop", set(), 0, 1 + ifdepth + (visits - 1 if ifdepth == 0 else 0))
    walk(_c03_box(stmts), "top", set())
    return sorted(out)

if __name__ == "__main__":
    import logging; logging.disable(logging.CRITICAL)
    print(json.dumps(validate_scheme(), indent=1))


# ---- the one coincidence of the compile scheme (lean/Drx/Spec/Supported.lean `isWithLike`): `set v = a` directly followed by
# `repeat while v <= b ... set v = 1 + v` has the very bytes of `repeat with v = a to b`; expected read-back = the canonical form.

def _is_var(e):
    return isinstance(e, list) and len(e) == 2 and e[0] in ("l", "p", "g", "r")


def c03_is_withlike(s1, s2):
    if not (isinstance(s1, list) and isinstance(s2, list) and s1[:1] == ["set"] and s2[:1] == ["while"] and _is_var(s1[1])):
        return False
    v = s1[1]
    c = s2[1]
    if not (isinstance(c, list) and c[:2] == ["b", "le"] and c[2] == v) or len(s2) < 3:
        return False
    return s2[-1] == ["set", v, ["b", "add", ["i", 1], v]]


def c03_canon(stmts):
    """statement list with every with-like `set` + `repeat while` pair replaced by the `repeat with` it is byte-identical to"""
    out = []
    i = 0
    stmts = [c03_canon_stmt(st) for st in stmts]
    while i < len(stmts):
        if i + 1 < len(stmts) and c03_is_withlike(stmts[i], stmts[i + 1]):
            s1, s2 = stmts[i], stmts[i + 1]
            out.append(["with", s1[1], s1[2], s2[1][3], "up"] + s2[2:-1])
            i += 2
        else:
            out.append(stmts[i]); i += 1
    return out


def c03_canon_stmt(st):
    if not isinstance(st, list) or not st:
        return st
    if st[0] == "if":
        return ["if", st[1], c03_canon(st[2]), c03_canon(st[3])]
    if st[0] == "while":
        return st[:2] + c03_canon(st[2:])
    if st[0] == "with":
        return st[:5] + c03_canon(st[5:])
    if st[0] == "in":
        return st[:3] + c03_canon(st[3:])
    if st[0] == "tell":
        return st[:2] + c03_canon(st[2:])
    return st


def c03_prop_loop_classes(stmts):
    """F151: `repeat with <declared property> in l`; F152: `repeat with <declared property> = a [down] to b` (lean: propLoopVarL)"""
    out = set()
    for t in walk(stmts):
        if isinstance(t, list) and len(t) >= 3 and t[0] in ("with", "in") and isinstance(t[1], list) and t[1][:1] == ["r"]:
            out.add("F151" if t[0] == "in" else "F152")
    return sorted(out)


def c03_has_withlike(stmts):
    return c03_canon(stmts) != stmts
