"""C01 — container extraction (riff walk, offset lookup, FourCC, imap/mmap, projector locator)."""
import os, struct
from core import Case, canon, hx

PROP = "C01"
LEAN_MODULES = ["DrxProps.C01"]
FAMILIES = ["riff"]
RULE = ("spec movies (order, prefix with planted decoys, chunk list with arbitrary FourCC bytes and payload lengths incl. 0/odd, "
        "imap first, mmap anywhere, free/junk and size<=0 map entries) are encoded by the harness, decoded by the real "
        "parse_riff/get_by_offset/parse_imap/parse_mmap/find_riff_in_exe and by the Lean model; expected values come from the spec "
        "object. A second stream truncates/mutates the bytes (model vs implementation only). distinct_nontrivial = distinct spec "
        "objects on which the implementation returned something other than an error/empty result.")
TRUSTED = ["harness/c01.py encoder + expectations (Python)", "correspondence is sampled (generator quality bounds it)",
           "CPython struct/slicing/bytes.find are modelled in lean/Drx/Py.lean, not verified"]
ASSUMPTIONS = ["payload lengths < 2^31", "logging ignored"]

def gen_tables():
    import gen_riff, gen_layouts
    out = gen_riff.gen_riff_consts()
    out.update(gen_layouts.gen_riff_layouts())
    return out


IGNORE = ("free", "junk")


def sanitize(b4: bytes, order: str) -> str:
    s = "".join(chr(b) if 0x20 <= b <= 0x7A else "_" for b in b4)
    return s[::-1] if order == "<" else s


def enc_chunk(order, fourcc: bytes, payload: bytes) -> bytes:
    fid = fourcc[::-1] if order == "<" else fourcc
    return fid + struct.pack(order + "i", len(payload)) + payload + (b"\0" if len(payload) % 2 else b"")


def build_movie(order, prefix: bytes, chunks, mmap_at, extra_entries=()):
    """chunks: list of (fourcc bytes as the *logical* id (big-endian reading), payload). Chunk 0 must be the imap placeholder,
    chunk mmap_at the mmap placeholder. Returns (file bytes, entries, chunk offsets relative to the movie)."""
    n_entries = 1 + len(chunks) + len(extra_entries)   # entry 0 = RIFX itself
    mmap_len = 24 + 20 * n_entries
    chunks = list(chunks)
    chunks[0] = (b"imap", bytes(24))
    chunks[mmap_at] = (b"mmap", bytes(mmap_len))
    offs, pos = [], 12
    for cc, pl in chunks:
        offs.append(pos)
        pos += 8 + len(pl) + len(pl) % 2
    total = pos
    P = len(prefix)
    entries = [(b"RIFX", total - 8, P + 0, 0, 0, 0)]
    for (cc, pl), o in zip(chunks, offs):
        entries.append((cc, len(pl), P + o, 0, 0, 0))
    entries += list(extra_entries)
    def enc_entry(e):
        cc, size, off, fl, un, nx = e
        fid = cc[::-1] if order == "<" else cc
        return fid + struct.pack(order + "iihhi", size, off, fl, un, nx)
    mm = struct.pack(order + "hhiiiii", 24, 20, n_entries, n_entries, -1, -1, -1) + b"".join(enc_entry(e) for e in entries)
    im = struct.pack(order + "iiihhii", 1, P + offs[mmap_at], 0x4C1, 0, 0, 0, 0)
    chunks[0] = (b"imap", im)
    chunks[mmap_at] = (b"mmap", mm)
    head = (b"XFIR" if order == "<" else b"RIFX") + struct.pack(order + "i", total - 8) + (b"39VM" if order == "<" else b"MV93")
    body = b"".join(enc_chunk(order, cc, pl) for cc, pl in chunks)
    return prefix + head + body, entries, offs, chunks


def chunkJ(order, cc, pl):
    return {"id": sanitize(cc, ">"), "data": pl.hex()}


def first_genuine(b: bytes) -> int:
    """spec of the locator: least p with XFIR at p and 39VM at p+8 (caller guarantees one exists)"""
    p = 0
    while True:
        p = b.find(b"XFIR", p)
        if p < 0:
            return -1
        if b[p + 8:p + 12] == b"39VM":
            return p
        p += 1


def rand_fourcc(rng):
    r = rng.random()
    if r < 0.35:
        return bytes(rng.choice(b"ABCDEFGHIJKLMNOPQRSTUVWXYZabcdefghijklmnopqrstuvwxyz*_ 0123456789") for _ in range(4))
    if r < 0.6:
        b = bytearray(b"CASt"); b[rng.randrange(4)] = rng.randrange(256); return bytes(b)
    if r < 0.7:
        return rng.choice([b"free", b"junk", b"XFIR", b"RIFX", b"39VM", b"MV93", b"imap", b"mmap"])
    return bytes(rng.randrange(256) for _ in range(4))


def rand_payload(rng):
    n = rng.choice([0, 0, 1, 1, 2, 3, 4, 5, 7, 8, rng.randrange(0, 40), rng.randrange(0, 300)])
    r = rng.random()
    if r < 0.15:
        return (b"XFIR" * (n // 4 + 1))[:n]
    return bytes(rng.randrange(256) for _ in range(n))


def rand_prefix(rng, order):
    if rng.random() < 0.4:
        return b""
    n = rng.choice([1, 2, 3, 7, 12, 13, rng.randrange(0, 200), rng.randrange(0, 2048)])
    b = bytearray(rng.randrange(256) for _ in range(n))
    # planted decoys: XFIR without / with partial / straddling 39VM
    for _ in range(rng.randrange(0, 7)):
        if n < 4:
            break
        p = rng.randrange(0, n - 3)
        b[p:p + 4] = b"XFIR"
        if rng.random() < 0.3 and p + 12 <= n:
            b[p + 8:p + 11] = b"39V"      # almost genuine
        if rng.random() < 0.2 and p + 8 <= n:
            b[p + 4:p + 8] = b"XFIR"      # adjacent decoys
    # make sure no genuine header sneaks into the prefix for '<' movies (would legitimately be "first genuine")
    return bytes(b)


def movie_case(rng, kind="movie", nmax=40, n=None, prefix=None, order=None, small=False):
    order = order or rng.choice("<>")
    prefix = rand_prefix(rng, order) if prefix is None else prefix
    n = n or rng.choice([2, 2, 3, 4, 5, rng.randrange(2, nmax + 1)])
    chunks = [(b"imap", b"")] + [(rand_fourcc(rng), bytes([rng.randrange(256)]) * rng.randrange(0, 4) if small else rand_payload(rng)) for _ in range(n - 1)]
    mmap_at = rng.randrange(1, n)
    extra = []
    for _ in range(rng.randrange(0, 3)):
        extra.append((rng.choice([b"free", b"junk", rand_fourcc(rng)]), rng.choice([0, 0, -1, -5]), rng.choice([0, 12, 7]), 12, 0, -1))
    data, entries, offs, chunks = build_movie(order, prefix, chunks, mmap_at, extra)
    P = len(prefix)
    lines, expect = [], []
    h = hx(data)
    lines.append(f"riff parse {order} {P} {h}")
    expect.append(canon([chunkJ(order, cc, pl) for cc, pl in chunks]))
    # lookups: every chunk start, plus neighbours that are not chunk starts
    qs = (list(offs) if len(offs) <= 64 else offs[:20] + offs[250:262] + offs[-20:]) + [o + d for o in offs[:6] for d in (-1, 1, 2, 8)] + [0, 11, -1, offs[-1] + 10 ** 6]
    starts = set(offs)
    exp = []
    for q in qs:
        if q in starts:
            cc, pl = chunks[offs.index(q)]
            exp.append(chunkJ(order, cc, pl))
        else:
            exp.append("error")
    lines.append(f"riff byoffs {order} {P} {h} {','.join(map(str, qs))}")
    expect.append(canon(exp))
    # designated bytes: map entries (as decoded by the implementation from the mmap chunk found through the imap)
    lines.append(f"riff designated {order} {P} {h}")
    des = []
    for idx, (cc, size, off, fl, un, nx) in enumerate(entries):
        cid = sanitize(cc, ">")
        if idx == 0 or size <= 0 or cid in IGNORE:
            continue
        k = offs.index(off - P)
        des.append({"index": idx, "id": cid, "data": chunks[k][1].hex()})
    expect.append(canon(des))
    lines.append(f"riff reenc {order} {P} {h}")   # the Lean encoder of the theorems reproduces these bytes
    expect.append("true")
    if order == "<":
        lines.append(f"riff locate {h}")
        fg = first_genuine(data)
        expect.append(str(fg))
    spec = dict(order=order, prefix_len=P, nchunks=n, mmap_at=mmap_at, hex=h if len(h) < 4000 else h[:4000] + "...")
    return Case(kind=kind, spec=spec, lines=lines, expect=expect)


def fourcc_cases():
    out = []
    for order in "<>":
        for pos in range(4):
            lines, expect = [], []
            for v in range(256):
                b = bytearray(b"AbCd"); b[pos] = v
                lines.append(f"riff fourcc {order} {bytes(b).hex()}")
                expect.append(canon(sanitize(bytes(b), order)))
            out.append(Case(kind="fourcc-exhaustive", spec=dict(order=order, pos=pos), lines=lines, expect=expect))
    # pairs of neighbouring bytes that form one character in a multi-byte encoding, with the text encoding of the movie (environment
    # variable DRX_ENCODING, used for names elsewhere) set to utf-8 / shift_jis / mac_roman: a FourCC is four bytes whatever the
    # encoding says (seeded change C01-m15 decoded the four bytes in one call with the configured encoding). Implementation only.
    pairs = [b"\xc3\xa9", b"\xe3\x81", b"\x83\x41", b"\x82\xa0", b"\xf0\x9f", b"\x8e\xb1", b"\xa4\xa2"]
    for enc in ("utf-8", "shift_jis", "euc_jp", "mac_roman"):
        lines, expect = [], []
        for order in "<>":
            for pr in pairs:
                for at in range(3):
                    b = bytearray(b"AbCd"); b[at:at + 2] = pr
                    lines.append(f"#riff fourcc-enc {enc} {order} {bytes(b).hex()}")
                    expect.append(canon(sanitize(bytes(b), order)))
        out.append(Case(kind="fourcc-encodings", spec=dict(encoding=enc), lines=lines, expect=expect))
    return out


def map_cases(rng, n):
    out = []
    for _ in range(n):
        order = rng.choice("<>")
        def s32():
            return rng.choice([0, 1, -1, 2 ** 31 - 1, -2 ** 31, rng.randrange(-2 ** 31, 2 ** 31)])
        def s16():
            return rng.choice([0, 1, -1, 2 ** 15 - 1, -2 ** 15, rng.randrange(-2 ** 15, 2 ** 15)])
        im = [s32(), s32(), s32(), s16(), s16(), s32()]
        imb = struct.pack(order + "iiihhii", *im, s32())
        k = rng.choice([0, 1, 2, rng.randrange(0, 60)])
        ents = []
        for _ in range(k):
            cc = rand_fourcc(rng)
            ents.append((cc, s32(), s32(), s16(), s16(), s32()))
        used = rng.choice([k, k, k, max(0, k - 1), -3]) if k else rng.choice([0, -1])
        hdr = [s16(), s16(), s32(), used, s32(), s32(), s32()]
        mb = struct.pack(order + "hhiiiii", *hdr) + b"".join((cc[::-1] if order == "<" else cc) + struct.pack(order + "iihhi", *r) for cc, *r in ents)
        mb += bytes(rng.randrange(256) for _ in range(rng.choice([0, 0, 3, 20])))
        nuse = max(0, used)
        lines = [f"riff imap {order} {hx(imb)}", f"riff mmap {order} {hx(mb)}"]
        expect = [canon(im), canon({"hdr": hdr, "res": [[sanitize(cc, ">")] + list(r) for cc, *r in ents[:nuse]]})]
        out.append(Case(kind="maps", spec=dict(order=order, entries=k, used=used), lines=lines, expect=expect))
    return out


def locator_cases(rng, n, exhaustive=False):
    out = []
    hdr = b"XFIR\x10\x00\x00\x0039VM" + b"imap"
    if exhaustive:
        # every decoy position in a 64-byte prefix, incl. decoys overlapping the genuine header's first bytes
        for p in range(0, 64):
            for flavour in (0, 1, 2):
                pre = bytearray(b"\x00" * 64)
                pre[p:p + 4] = b"XFIR"
                if flavour == 1 and p + 12 <= 64 + 12:
                    pre[p + 8:p + 11] = b"39V"
                if flavour == 2 and p + 8 <= 64:
                    pre[p + 4:p + 8] = b"XFIR"
                data = bytes(pre[:64]) + hdr
                out.append(Case(kind="locator-exhaustive", spec=dict(decoy_at=p, flavour=flavour), lines=[f"riff locate {hx(data)}"], expect=[str(first_genuine(data))]))
    if exhaustive:
        # every value of every byte of the genuine header's length field (the locator must not care what the length bytes are:
        # line ends, NUL, regex metacharacters ...), behind a prefix that holds one decoy
        for pos in range(4):
            for b in range(256):
                ln = bytearray(b"\x10\x00\x00\x00"); ln[pos] = b
                data = b"MZ" + bytes(9) + b"XFIR" + bytes(5) + b"XFIR" + bytes(ln) + b"39VM" + b"imap" + bytes(8)
                out.append(Case(kind="locator-length-bytes", spec=dict(pos=pos, byte=b), lines=[f"riff locate {hx(data)}"], expect=[str(first_genuine(data))]))
    # byte PAIRS / triples / quadruples in the length field that form ONE character in a multi-byte codec (UTF-8 lead + continuation
    # bytes, Shift-JIS / GBK lead + trail, UTF-16 surrogates): a header decoded in one go gets shorter and the marker moves
    # (seeded change C01-m1 of round 14: `content[:12].decode(errors='replace')`)
    seqs = [bytes([a, b]) for a in (0xC2, 0xC3, 0xDF, 0x81, 0x9F, 0xE0, 0xFC, 0xD8, 0xDC) for b in (0x80, 0xBF, 0x40, 0xA0, 0x00, 0xDC)] + \
           [bytes([0xE0, 0xA0, 0x80]), bytes([0xE2, 0x82, 0xAC]), bytes([0xEF, 0xBF, 0xBD]), bytes([0xED, 0xA0, 0x80]),
            bytes([0xF0, 0x90, 0x80, 0x80]), bytes([0xF4, 0x8F, 0xBF, 0xBF]), bytes([0xF0, 0x9F, 0x98]), bytes([0xFF, 0xFE, 0x00, 0x00]), bytes([0xEF, 0xBB, 0xBF])]
    for sq in seqs:
        for pos in range(0, 5 - len(sq)):
            ln = bytearray(4); ln[pos:pos + len(sq)] = sq
            data = b"MZ" + bytes(9) + b"XFIR" + bytes(5) + b"XFIR" + bytes(ln) + b"39VM" + b"imap" + bytes(8)
            out.append(Case(kind="locator-length-sequences", spec=dict(pos=pos, seq=sq.hex()), lines=[f"riff locate {hx(data)}"], expect=[str(first_genuine(data))]))
    for _ in range(n):
        pre = rand_prefix(rng, "<")
        data = pre + hdr + bytes(rng.randrange(256) for _ in range(rng.randrange(0, 30)))
        out.append(Case(kind="locator", spec=dict(prefix_len=len(pre)), lines=[f"riff locate {hx(data)}"], expect=[str(first_genuine(data))]))
    return out


def mutated_cases(rng, n):
    """malformed stream: only model vs implementation is compared (no expectation)"""
    out = []
    for _ in range(n):
        c = movie_case(rng, nmax=6)
        order, P = c.spec["order"], c.spec["prefix_len"]
        data = bytearray(bytes.fromhex(c.lines[0].split()[-1].replace("-", "")))
        r = rng.random()
        if r < 0.4 and len(data) > P:
            data = data[:rng.randrange(P, len(data))]
        elif r < 0.8 and len(data) > P + 20:
            # overwrite a size field of some chunk header with an adversarial value
            p = P + 12 + 4
            v = rng.choice([0, 1, -1, 2 ** 31 - 1, -2 ** 31, -9, 7, len(data), -len(data)])
            data[p:p + 4] = struct.pack(order + "i", v)
        else:
            for _ in range(3):
                if data:
                    data[rng.randrange(len(data))] = rng.randrange(256)
        h = hx(bytes(data))
        qs = [12, 20, 21, 0]
        out.append(Case(kind="mutated", spec=dict(order=order, prefix_len=P, hex=h[:2000]),
                        lines=[f"riff parse {order} {P} {h}", f"riff byoffs {order} {P} {h} {','.join(map(str, qs))}", f"riff steps {order} {P} {h}"],
                        expect=[None, None, None]))
    return out


def small_len_grid():
    """all chunk-length pairs 0..9 x 0..9 in both orders"""
    import random
    out = []
    for order in "<>":
        for a in range(10):
            for b in range(10):
                rng = random.Random(a * 10 + b)
                chunks = [(b"imap", b""), (b"AAAA", bytes(range(1, a + 1))), (b"mmap", b""), (b"BBBB", bytes(range(101, 101 + b)))]
                data, entries, offs, chunks2 = build_movie(order, b"", chunks, 2)
                h = hx(data)
                qs = list(range(0, len(data) + 3))
                exp = [chunkJ(order, *chunks2[offs.index(q)]) if q in offs else "error" for q in qs]
                out.append(Case(kind="len-grid", spec=dict(order=order, a=a, b=b),
                                lines=[f"riff parse {order} 0 {h}", f"riff byoffs {order} 0 {h} {','.join(map(str, qs))}"],
                                expect=[canon([chunkJ(order, cc, pl) for cc, pl in chunks2]), canon(exp)]))
    return out


def scale_cases(rng, tier):
    """beyond the small bounds: movies with more than 256 / 512 chunks, standalone and embedded behind a prefix (an index kept per 256
    chunks, a count held in a byte); projector prefixes around every multiple of 64 KiB up to 192 KiB (a search done in windows);
    one chunk of 70 000 bytes (sizes that need the third byte)"""
    out = []
    for n, pre in ((300, b""), (300, b"MZ" + bytes(1000)), (600, b"MZ" + bytes(333)), (257, b"MZ" + bytes(40)), (256, b"")):
        for order in ("<", ">") if not pre else ("<",):
            out.append(movie_case(rng, kind="movie-many-chunks", n=n, prefix=pre, order=order, small=True))
    hdr = b"XFIR\x10\x00\x00\x0039VM" + b"imap" + bytes(8)
    marks = (1, 2, 3) if tier != "quick" else (1, 2)
    for k in marks:
        for d in range(-16, 6):
            plen = k * 65536 + d
            if plen < 2:
                continue
            pre = bytearray(b"MZ" + bytes(plen - 2))
            pre[100:104] = b"XFIR"                       # one decoy far in front
            data = bytes(pre) + hdr
            out.append(Case(kind="locator-64k-marks", spec=dict(prefix_len=plen), lines=[f"riff locate {hx(data)}"], expect=[str(first_genuine(data))]))
    big = [(b"imap", b""), (b"BIG1", bytes(i % 251 for i in range(70000))), (b"mmap", b""), (b"AFTR", b"tail")]
    for order in "<>":
        data, entries, offs, ch = build_movie(order, b"", big, 2)
        h = hx(data)
        out.append(Case(kind="movie-70000-byte-chunk", spec=dict(order=order), lines=[f"riff parse {order} 0 {h}", f"riff byoffs {order} 0 {h} {offs[3]},{offs[1]}"],
                        expect=[canon([chunkJ(order, cc, pl) for cc, pl in ch]), canon([chunkJ(order, *ch[3]), chunkJ(order, *ch[1])])]))
    return out


def cases(rng, tier):
    n = dict(quick=(1500, 400, 400, 600), thorough=(40000, 6000, 6000, 8000), search=(20000, 3000, 3000, 0))[tier]
    out = fourcc_cases()
    out += small_len_grid()
    out += locator_cases(rng, n[2], exhaustive=True)
    out += [movie_case(rng) for _ in range(n[0])]
    out += scale_cases(rng, tier)
    out += map_cases(rng, n[1])
    out += mutated_cases(rng, n[3])
    return out


# ---------------------------------------------------------------------------------------------- real code

def _J(f):
    try:
        return canon(f())
    except Exception:
        return canon("error")


def impl(case):
    from drxtract.riff.riff import parse_riff, find_riff_in_exe
    from drxtract.riff.riff_chunk import parse_chunk_id
    from drxtract.riff.imap import parse_imap
    from drxtract.riff.mmap import parse_mmap
    out = []
    for line in case["lines"]:
        t = line.lstrip("#").split()
        cmd = t[1]
        B = lambda s: bytes.fromhex("" if s == "-" else s)
        ch = lambda c: {"id": c.identifier, "data": bytes(c.data).hex()}
        if cmd == "fourcc":
            out.append(_J(lambda: parse_chunk_id(B(t[3]), 0, t[2])))
        elif cmd == "fourcc-enc":
            old_enc = os.environ.get("DRX_ENCODING")
            os.environ["DRX_ENCODING"] = t[2]
            try:
                out.append(_J(lambda: parse_chunk_id(B(t[4]), 0, t[3])))
            finally:
                if old_enc is None:
                    os.environ.pop("DRX_ENCODING", None)
                else:
                    os.environ["DRX_ENCODING"] = old_enc
        elif cmd == "parse":
            out.append(_J(lambda: [ch(c) for c in parse_riff(B(t[4]), int(t[3]), t[2]).chunks]))
        elif cmd == "reenc":
            out.append("true")   # model-side tie only (see Drx/Drv/Riff.lean reencodes)
        elif cmd == "steps":
            def steps():
                try:
                    return len(parse_riff(B(t[4]), int(t[3]), t[2]).chunks)
                except Exception:
                    return None
            # iteration count is observable only on success (number of chunks); on error the model's count is not compared
            n = steps()
            out.append(str(n) if n is not None else None)
        elif cmd == "byoffs":
            def f():
                r = parse_riff(B(t[4]), int(t[3]), t[2])
                res = []
                for q in t[5].split(","):
                    try:
                        res.append(ch(r.get_by_offset(int(q))))
                    except Exception:
                        res.append("error")
                return res
            out.append(_J(f))
        elif cmd == "designated":
            def f():
                order, P, data = t[2], int(t[3]), B(t[4])
                r = parse_riff(data, P, order)
                im = parse_imap(r.chunks[0].data, order)
                mm = parse_mmap(r.get_by_offset(im.offset - P).data, order)
                res = []
                for idx, e in enumerate(mm.resources):
                    if idx == 0 or e.size <= 0 or e.chunkID in IGNORE:
                        continue
                    c = r.get_by_offset(e.offset - P)
                    res.append({"index": idx, "id": c.identifier, "data": bytes(c.data).hex()})
                    if c.identifier != e.chunkID:
                        res[-1]["mismatch"] = e.chunkID
                return res
            out.append(_J(f))
        elif cmd == "imap":
            def f():
                m = parse_imap(B(t[3]), t[2])
                return [m.count, m.offset, m.file_version, m.reserved, m.unknown, m.reserved2]
            out.append(_J(f))
        elif cmd == "mmap":
            def f():
                m = parse_mmap(B(t[3]), t[2])
                return {"hdr": [m.propertiesSize, m.resourceSize, m.maxResourceCount, m.usedResourceCount, m.firstJunkResourceID, m.oldMemoryMapResourceID, m.firstFreeResourceID],
                        "res": [[e.chunkID, e.size, e.offset, e.flags, e.unused, e.nextResourceID] for e in m.resources]}
            out.append(_J(f))
        elif cmd == "locate":
            try:
                out.append(str(find_riff_in_exe(B(t[2]))))
            except Exception:
                out.append(canon("error"))
        else:
            out.append("bad-op")
    return out


def nontrivial(case, io):
    return case["kind"] not in ("mutated",) and not all(x == '"error"' for x in io)


MATCHERS = {}

if __name__ == "__main__":
    import core, sys
    sys.exit(core.main("c01"))
