"""Stage G translator for the 'snd ' readers (property C07): field layouts (offset, width, signedness) of
  * format.py: the format word, the format-1 / format-2 prefixes, the data-type record and the command record (loop bodies),
    the command count;
  * bufferCmd.py `_get_frames`: the 22 bytes common to both sound headers (6 unpacks + 2 single-byte reads) and the tail of the
    extended header (9 unpacks + the raw AIFF-rate slice), with the sizes the index has advanced by.
Built on harness/gen_layouts.py's expression helpers (its API is untouched). `_get_frames` is not straight-line, so this module walks
statement lists itself; it REFUSES (raises gen_layouts.Refuse) on any statement form it does not recognise inside a walked region.
"""
import ast
from pathlib import Path
from core import REPO
from gen_layouts import FMT, Refuse, _const_int, _fmt_of, _unpack_call, lean_layout


def _strip_int(node):
    """int(X) -> X"""
    if isinstance(node, ast.Call) and isinstance(node.func, ast.Name) and node.func.id == "int" and len(node.args) == 1:
        return node.args[0]
    return node


def _find_unpack(node):
    """the struct.unpack(...)[0] inside `int(struct.unpack(...)[0])` (or bare), else None"""
    return _unpack_call(_strip_int(node))


def _harmless_if(st):
    """an `if` that neither reads the data nor moves an index: only plain Name assignments / raises / logging calls"""
    for n in ast.walk(st):
        if isinstance(n, ast.Call) and isinstance(n.func, ast.Attribute) and n.func.attr == "unpack":
            return False
        if isinstance(n, (ast.AugAssign, ast.For, ast.While, ast.Subscript)):
            return False
    return True


class Walk:
    """symbolic walk of a statement list: tracks `name -> (symbol, constant)` and collects reads relative to `base`"""

    def __init__(self, func, base, env=None, data_name="fdata"):
        self.func, self.base, self.data = func, base, data_name
        self.env = dict(env or {})
        self.fields, self.bytes, self.raw = [], [], []

    def off(self, node):
        s, c = _const_int(node, self.env)
        if s not in (None, self.base):
            raise Refuse(f"{self.func}: offset depends on {s}")
        return c

    def run(self, stmts, stop=(ast.If, ast.For, ast.While, ast.Return, ast.Raise)):
        """walks until a statement of a `stop` type (returned, not consumed) or the end (returns None)"""
        for k, st in enumerate(stmts):
            if isinstance(st, ast.If) and ast.If in stop and _harmless_if(st) and self._skippable_if:
                continue
            if isinstance(st, stop):
                return k
            if isinstance(st, ast.Expr):
                continue
            if isinstance(st, ast.AugAssign) and isinstance(st.target, ast.Name):
                s, c = self.env.get(st.target.id, (st.target.id, 0))
                ds, dc = _const_int(st.value, self.env)
                if ds is not None or not isinstance(st.op, (ast.Add, ast.Sub)):
                    raise Refuse(f"{self.func}: increment at line {st.lineno}")
                self.env[st.target.id] = (s, c + (dc if isinstance(st.op, ast.Add) else -dc))
                continue
            if isinstance(st, ast.Assign) and len(st.targets) == 1:
                tgt, val = st.targets[0], st.value
            elif isinstance(st, ast.AnnAssign) and st.value is not None:
                tgt, val = st.target, st.value
            else:
                raise Refuse(f"{self.func}: statement {type(st).__name__} at line {st.lineno}")
            uc = _find_unpack(val)
            if uc is not None:
                fnode, snode, indexed = uc
                order, fmt = _fmt_of(fnode)
                if not (isinstance(snode, ast.Subscript) and isinstance(snode.slice, ast.Slice) and isinstance(snode.value, ast.Name)
                        and snode.value.id == self.data and snode.slice.lower is not None and snode.slice.upper is not None):
                    raise Refuse(f"{self.func}: unpack operand at line {st.lineno}")
                lo, hi = self.off(snode.slice.lower), self.off(snode.slice.upper)
                if not indexed or len(fmt) != 1 or fmt not in FMT or not isinstance(tgt, ast.Name):
                    raise Refuse(f"{self.func}: unpack form at line {st.lineno}")
                w, sg = FMT[fmt]
                if hi - lo != w:
                    raise Refuse(f"{self.func}: slice of {hi - lo} bytes for format {fmt!r} at line {st.lineno}")
                big = (order == ">") or (order == "param" and self.param_order == ">")
                if not big:
                    raise Refuse(f"{self.func}: byte order {order!r} at line {st.lineno}")
                self.fields.append((tgt.id, lo, w, sg, order))
                continue
            inner = _strip_int(val)
            if isinstance(inner, ast.Subscript) and isinstance(inner.value, ast.Name) and inner.value.id == self.data:
                if isinstance(inner.slice, ast.Slice):
                    lo, hi = self.off(inner.slice.lower), self.off(inner.slice.upper)
                    self.raw.append((tgt.id if isinstance(tgt, ast.Name) else "?", lo, hi - lo))        # a slice: cannot raise
                else:
                    self.bytes.append((tgt.id if isinstance(tgt, ast.Name) else "?", self.off(inner.slice), 1, False, ">"))   # fdata[i]
                continue
            if isinstance(tgt, ast.Name):          # index bookkeeping / object construction
                try:
                    self.env[tgt.id] = _const_int(val, self.env)
                except Refuse:
                    self.env.pop(tgt.id, None)
            continue
        return None

    _skippable_if = False
    param_order = ">"


def _func(path: Path, name: str):
    tree = ast.parse(path.read_text())
    fn = next((n for n in ast.walk(tree) if isinstance(n, ast.FunctionDef) and n.name == name), None)
    if fn is None:
        raise Refuse(f"{path.name}: no function {name}")
    return fn, tree


def _module_const(tree, name):
    for n in tree.body:
        if isinstance(n, ast.Assign) and len(n.targets) == 1 and isinstance(n.targets[0], ast.Name) and n.targets[0].id == name \
                and isinstance(n.value, ast.Constant):
            return n.value.value
    raise Refuse(f"module constant {name} not found")


def _loop_record(fn, func_name, loop, base="idx", skip_if=False):
    """layout of one loop round relative to the index at the start of the round, and the bytes the index advances by"""
    w = Walk(func_name, base, env={base: (base, 0)})
    w._skippable_if = skip_if
    k = w.run(loop.body)
    if k is not None:
        raise Refuse(f"{func_name}: loop body stops at line {loop.body[k].lineno}")
    s, c = w.env.get(base, (base, 0))
    if s != base:
        raise Refuse(f"{func_name}: loop index lost")
    return w.fields, c


def snd_layouts():
    fpath = REPO / "drxtract" / "snd" / "format.py"
    bpath = REPO / "drxtract" / "snd" / "command" / "bufferCmd.py"
    out = {}
    # ---- format.py
    fn, tree = _func(fpath, "parse_snd_fmt")
    if _module_const(tree, "mac_bit_order") != ">":
        raise Refuse("mac_bit_order is not '>'")
    w = Walk("parse_snd_fmt", None); w.run(fn.body)
    out["fmtWord"] = w.fields

    fn, _ = _func(fpath, "parse_snd_fmt1")
    w = Walk("parse_snd_fmt1", None); k = w.run(fn.body)
    if k is None or not isinstance(fn.body[k], ast.For):
        raise Refuse("parse_snd_fmt1: expected the data-type loop")
    out["fmt1Prefix"] = w.fields
    out["fmt1LoopStart"] = w.env["idx"][1]
    out["dataTypeRecord"], out["dataTypeRecordSize"] = _loop_record(fn, "parse_snd_fmt1", fn.body[k])

    fn, _ = _func(fpath, "parse_snd_fmt2")
    w = Walk("parse_snd_fmt2", None); k = w.run(fn.body)
    out["fmt2Prefix"] = w.fields
    out["fmt2CommandsAt"] = w.env["idx"][1]
    # the index handed to parse_snd_commands must be that variable
    call = next((n for n in ast.walk(fn) if isinstance(n, ast.Call) and isinstance(n.func, ast.Name) and n.func.id == "parse_snd_commands"), None)
    if call is None or not (isinstance(call.args[1], ast.Name) and call.args[1].id == "idx"):
        raise Refuse("parse_snd_fmt2: call of parse_snd_commands")

    fn, _ = _func(fpath, "parse_snd_commands")
    w = Walk("parse_snd_commands", "idx"); k = w.run(fn.body)
    if k is None or not isinstance(fn.body[k], ast.For):
        raise Refuse("parse_snd_commands: expected the command loop")
    out["commandsCount"] = w.fields
    out["commandsLoopStart"] = w.env["idx"][1]
    out["commandRecord"], out["commandRecordSize"] = _loop_record(fn, "parse_snd_commands", fn.body[k], skip_if=True)

    # ---- bufferCmd.py
    fn, _ = _func(bpath, "_get_frames")
    w = Walk("_get_frames", "idx"); k = w.run(fn.body)
    if k is None or not isinstance(fn.body[k], ast.If):
        raise Refuse("_get_frames: expected the header checks after the common part")
    out["soundHeaderCommon"], out["soundHeaderBytes"] = w.fields, w.bytes
    out["standardSize"] = w.env["idx"][1]
    if w.raw:
        raise Refuse("_get_frames: raw slice in the common part")
    # the branch `encode == EXTENDED`
    ext = None
    for st in fn.body[k:]:
        for n in ast.walk(st):
            if isinstance(n, ast.If) and isinstance(n.test, ast.Compare) and isinstance(n.test.left, ast.Name) and n.test.left.id == "encode" \
                    and len(n.test.comparators) == 1 and isinstance(n.test.comparators[0], ast.Name) and n.test.comparators[0].id == "EXTENDED":
                ext = n
    if ext is None:
        raise Refuse("_get_frames: no `encode == EXTENDED` branch")
    w2 = Walk("_get_frames", "idx", env=w.env)
    if w2.run(ext.body) is not None:
        raise Refuse("_get_frames: the extended branch is not straight-line")
    out["extendedTail"], out["extendedRaw"] = w2.fields, w2.raw
    out["extendedSize"] = w2.env["idx"][1]
    if w2.bytes:
        raise Refuse("_get_frames: single-byte read in the extended tail")
    return out


def gen_snd_layouts():
    L = snd_layouts()
    o = ["-- GENERATED by harness/gen_snd_layouts.py from /repo (drxtract/snd/format.py, drxtract/snd/command/bufferCmd.py) on every run; do not edit",
         "import Drx.Layout", "namespace Drx.Gen.SndLayouts", "open Drx.Layout", ""]
    for name in ("fmtWord", "fmt1Prefix", "dataTypeRecord", "fmt2Prefix", "commandsCount", "commandRecord",
                 "soundHeaderCommon", "soundHeaderBytes", "extendedTail"):
        o.append(lean_layout(name, L[name]))
    for name in ("fmt1LoopStart", "dataTypeRecordSize", "fmt2CommandsAt", "commandsLoopStart", "commandRecordSize", "standardSize", "extendedSize"):
        o.append(f"def {name} : Nat := {L[name]}")
    o.append("/-- raw slices of the extended tail (offset, bytes): cannot raise, only skipped -/")
    o.append("def extendedRaw : List (Nat × Nat) := [" + ", ".join(f"({a}, {b})" for _, a, b in L["extendedRaw"]) + "]")
    o += ["", "end Drx.Gen.SndLayouts"]
    return {"Drx/Gen/SndLayouts.lean": "\n".join(o) + "\n"}


if __name__ == "__main__":
    for k, v in gen_snd_layouts().items():
        print(v)
