"""C08 — score decoding applies frame deltas exactly, independent of how they are cut
(vwsc.py parse_vwsc_file_data / parse_vwsc_data, cparser.py, dir4cparser.py, dir5cparser.py)."""
import signal, struct, sys
from core import Case, canon, hx
import score_gen

PROP = "C08"
LEAN_MODULES = ["DrxProps.C08"]
FAMILIES = ["score"]
RULE = ("spec scores (layout 20/24, 3..50 channels, a sequence of channel buffers built from field values, one or more ENCODINGS of "
        "that sequence as records: same | list of (offset, bytes) ranges, optional outer wrapper) are serialised by the harness "
        "(and, on `ser` lines, by the Lean encoder of the theorems: both byte strings must agree), decoded by the real "
        "parse_vwsc_file_data and by the Lean model; the expected frames come from the spec object: patch the buffers in Python, "
        "read the fields with the harness's own layout tables. All encodings of one sequence must give the same frames. "
        "A malformed stream (truncations, every size/count/offset word at 0, 1, -1, max, ...) compares model and implementation "
        "only, under an alarm. distinct_nontrivial = distinct spec objects on which the implementation returned >= 1 frame.")
TRUSTED = ["harness/c08.py encoder, layout tables and expected-frame reader (Python)",
           "correspondence is sampled (generator quality bounds it)",
           "CPython struct/slicing/bytearray semantics are modelled in lean/Drx/Py.lean, not verified",
           "harness/score_gen.py (AST walk of the straight-line field readers -> lean/Drx/Gen/ScoreLayouts.lean)"]
ASSUMPTIONS = ["channel_count * frame_size <= 32768 (delta offsets are signed 16-bit words)", "record size <= 32767", "logging ignored",
               "transition names: the repo's DIR_TRANSITION_NAMES is taken as given"]
HAS_SEARCH_TIER = True

FS = {"d4": 20, "d5": 24}
TIMEOUT_S = 20


def gen_tables():
    return score_gen.gen_tables()


# ---------------------------------------------------------------------------------------------- spec side (Python)

# independent layout tables (from the format notes; NOT read from the repo): name -> (offset, struct format)
L_MAIN = {
    "d4": dict(transition_duration=(2, "B"), transition_chunk_size=(3, "B"), fps=(4, "B"), transition=(5, "B"),
               sound1_cast=(6, ">h"), sound2_cast=(8, ">h"), script=(16, ">h")),
    "d5": dict(script=(2, ">h"), sound1_cast=(6, ">h"), sound2_cast=(10, ">h"), transition_cast_id=(14, ">h"), fps=(20, ">h")),
}
L_PAL = {
    "d4": dict(palette_id=(0, ">h"), opcode=(4, "B"), fps=(5, "B"), cycles=(8, ">h")),
    "d5": dict(palette_id=(2, ">h"), fps=(4, "B"), opcode=(5, "B"), cycles=(10, ">h")),
}
L_SPR = {
    "d4": dict(spriteType=(0, ">h"), foregroundColor=(2, "B"), backgroundColor=(3, "B"), flags=(4, "B"), ink=(5, "B"),
               castId=(6, ">h"), y=(8, ">h"), x=(10, ">h"), height=(12, ">h"), width=(14, ">h"), flag1=(16, ">H"), flag2=(18, ">H")),
    "d5": dict(ink=(1, "B"), spriteType=(2, ">h"), castId=(4, ">h"), foregroundColor=(10, "B"), backgroundColor=(11, "B"),
               y=(12, ">h"), x=(14, ">h"), height=(16, ">h"), width=(18, ">h"), flag2=(20, ">H"), flag1=(22, ">H")),
}


def rd(layout, buf, base):
    return {k: struct.unpack_from(f, buf, base + o)[0] for k, (o, f) in layout.items()}


def operation_name(code):
    op = (code >> 4) & 0xF
    if op & 8:
        return "color_cycling_auto_reverse" if op & 1 else "color_cycling_loop"
    if op & 4:
        return "fade_to_black" if op & 2 else "fade_to_white"
    return str(op)


_TN = None


def transition_name(v):
    global _TN
    if _TN is None:
        from drxtract.common.constants import DIR_TRANSITION_NAMES
        _TN = dict(DIR_TRANSITION_NAMES)
    return _TN.get(v, str(v))


def read_frame(lay, buf):
    """what the property demands for one channel state: the fields of the main, palette and sprite channels"""
    fs = FS[lay]
    if len(buf) < 2 * fs or len(buf) % fs:
        return None
    m = rd(L_MAIN[lay], buf, 0)
    main = {}
    if m["fps"] or m["sound1_cast"] or m["sound2_cast"] or m["script"]:
        main = dict(fps=m["fps"], sound1_cast=m["sound1_cast"], sound2_cast=m["sound2_cast"], script=m["script"])
        if lay == "d4":
            main.update(transition_id=transition_name(m["transition"]), transition_chunk_size=m["transition_chunk_size"],
                        transition_duration=m["transition_duration"] & 0x7F)
        else:
            main.update(transition_cast_id=m["transition_cast_id"])
    p = rd(L_PAL[lay], buf, fs)
    pal = {}
    if p["palette_id"]:
        pal = dict(fps=p["fps"], operation=operation_name(p["opcode"]), palette_id=p["palette_id"], cycles=p["cycles"])
    score = []
    for base in range(2 * fs, len(buf), fs):
        s = rd(L_SPR[lay], buf, base)
        if s["castId"] > 0:
            d = dict(spriteType=s["spriteType"], castId=s["castId"], foregroundColor=s["foregroundColor"],
                     backgroundColor=s["backgroundColor"], ink_type=s["ink"] & 0x3F, y=s["y"], x=s["x"], height=s["height"],
                     width=s["width"], trails=(s["ink"] >> 6) & 1, moveable=bool(s["flag2"] & 0x8000), editable=bool(s["flag2"] & 0x4000))
            if lay == "d4":
                d["flags"] = s["flags"]
            score.append(d)
        else:
            score.append({})
    return dict(main=main, palette=pal, score=score)


def apply_rec(buf: bytes, rec):
    if rec == "S":
        return buf
    b = bytearray(buf)
    for off, bs in rec:
        assert 0 <= off and off + len(bs) <= len(b)
        b[off:off + len(bs)] = bs
    return bytes(b)


def states(n, recs):
    out, b = [], bytes(n)
    for r in recs:
        b = apply_rec(b, r)
        out.append(b)
    return out


def enc_rec(rec) -> bytes:
    if rec == "S":
        return struct.pack(">h", 2)
    body = b"".join(struct.pack(">hh", len(bs), off) + bs for off, bs in rec)
    return struct.pack(">h", 2 + len(body)) + body


def serialise(lay, cc, fc, u1, u2, recs) -> bytes:
    body = b"".join(enc_rec(r) for r in recs)
    return struct.pack(">iiihhhh", 20 + len(body), 0x14, fc, u1, FS[lay], cc, u2) + body


def wrap(w, inner: bytes) -> bytes:
    marker, u1, nm, last, markers, trailing = w
    ms = b"".join(struct.pack(">i", m) for m in markers)
    return struct.pack(">iiiiii", 24 + len(ms) + len(inner) + len(trailing), marker, u1, nm, len(markers), last) + ms + inner + trailing


def rec_valid(n, rec):
    if rec == "S":
        return True
    return all(len(bs) > 0 and 0 <= off and off + len(bs) <= n for off, bs in rec) and 2 + sum(4 + len(bs) for _, bs in rec) <= 32767


def recs_txt(recs):
    if not recs:
        return "-"
    return ";".join("S" if r == "S" else ("D" if not r else "/".join(f"{o}:{hx(bs)}" for o, bs in r)) for r in recs)


def recs_parse(s):
    if s == "-":
        return []
    out = []
    for t in s.split(";"):
        if t == "S":
            out.append("S")
        elif t == "D":
            out.append([])
        else:
            out.append([(int(x.split(":")[0]), bytes.fromhex(x.split(":")[1].replace("-", ""))) for x in t.split("/")])
    return out


def wrap_txt(w):
    if w is None:
        return "-"
    marker, u1, nm, last, markers, trailing = w
    return f"{marker},{u1},{nm},{last},{':'.join(map(str, markers)) if markers else '.'},{hx(trailing)}"


def wrap_parse(s):
    if s == "-":
        return None
    m, u, n, l, ms, tr = s.split(",")
    return (int(m), int(u), int(n), int(l), [] if ms == "." else [int(x) for x in ms.split(":")], bytes.fromhex(tr.replace("-", "")))


# ---------------------------------------------------------------------------------------------- generators

def s16(rng):
    return rng.choice([0, 0, 1, 1, 2, -1, 32767, -32768, 255, 256, rng.randrange(-32768, 32768), rng.randrange(1, 200)])


def u8(rng):
    return rng.choice([0, 1, 0x3F, 0x40, 0x7F, 0x80, 0xC0, 0xFF, rng.randrange(256), rng.randrange(256)])


def put(buf, layout, base, **vals):
    for k, v in vals.items():
        o, f = layout[k]
        struct.pack_into(f, buf, base + o, v)


def rand_buffer(rng, lay, cc, density=0.7):
    """a channel state built from field values (unknown bytes random)"""
    fs = FS[lay]
    b = bytearray(rng.randrange(256) if rng.random() < 0.3 else 0 for _ in range(cc * fs))
    if cc >= 1:
        if rng.random() < 0.35:
            b[0:fs] = bytes(fs)
        put(b, L_MAIN[lay], 0, **{k: (u8(rng) if f == "B" else s16(rng)) if rng.random() < 0.5 else 0 for k, (o, f) in L_MAIN[lay].items()})
    if cc >= 2:
        put(b, L_PAL[lay], fs, **{k: (u8(rng) if f == "B" else rng.choice([0, 0, -1, -2, -101, -102, -65, 5, s16(rng)])) for k, (o, f) in L_PAL[lay].items()})
    for c in range(2, cc):
        if rng.random() < density:
            vals = {}
            for k, (o, f) in L_SPR[lay].items():
                vals[k] = u8(rng) if f == "B" else (rng.choice([0, 0x8000, 0x4000, 0xC000, 0xFFFF, 0x3FFF, rng.randrange(65536)]) if f == ">H" else s16(rng))
            vals["castId"] = rng.choice([1, 1, 2, 3, 32767, rng.randrange(1, 500), 0, -1, -32768])
            put(b, L_SPR[lay], c * fs, **vals)
        elif rng.random() < 0.5:
            b[c * fs:(c + 1) * fs] = bytes(fs)
    return bytes(b)


def mutate_buffer(rng, lay, cc, buf):
    """next frame: change a few fields / bytes / a whole channel / nothing"""
    fs = FS[lay]
    b = bytearray(buf)
    r = rng.random()
    if r < 0.15:
        return bytes(b)                                   # unchanged frame
    if r < 0.25:
        return rand_buffer(rng, lay, cc)
    for _ in range(rng.choice([1, 1, 2, 3, 6])):
        q = rng.random()
        if q < 0.5 and cc > 2:
            c = rng.randrange(2, cc)
            k = rng.choice(list(L_SPR[lay]))
            o, f = L_SPR[lay][k]
            put(b, L_SPR[lay], c * fs, **{k: u8(rng) if f == "B" else (rng.randrange(65536) if f == ">H" else s16(rng))})
        elif q < 0.6 and cc > 2:
            c = rng.randrange(2, cc)
            b[c * fs:(c + 1) * fs] = bytes(fs)            # sprite vanishes
        elif q < 0.75:
            k = rng.choice(list(L_MAIN[lay])); o, f = L_MAIN[lay][k]
            put(b, L_MAIN[lay], 0, **{k: u8(rng) if f == "B" else s16(rng)})
        elif q < 0.85 and cc > 1:
            k = rng.choice(list(L_PAL[lay])); o, f = L_PAL[lay][k]
            put(b, L_PAL[lay], fs, **{k: u8(rng) if f == "B" else s16(rng)})
        else:
            p = rng.randrange(len(b)); b[p] = rng.randrange(256)
    return bytes(b)


def diff_runs(a, b):
    runs, i, n = [], 0, len(a)
    while i < n:
        if a[i] != b[i]:
            j = i
            while j < n and a[j] != b[j]:
                j += 1
            runs.append((i, j))
            i = j
        else:
            i += 1
    return runs


def encode_frames(rng, n, bufs, strategy):
    """one encoding (list of records) of the buffer sequence `bufs` starting from the zero buffer"""
    recs, cur = [], bytes(n)
    for tgt in bufs:
        st = strategy if strategy != "mixed" else rng.choice(["full", "min", "min-noS", "bytes", "random", "random"])
        runs = diff_runs(cur, tgt)
        if st == "full":
            rec = [(0, tgt)]
        elif st == "min":
            rec = [(i, tgt[i:j]) for i, j in runs] if runs else "S"
        elif st == "min-noS":
            if runs:
                rec = [(i, tgt[i:j]) for i, j in runs]
            else:
                i = rng.randrange(n); j = rng.randrange(i + 1, n + 1)
                rec = [(i, tgt[i:j])]                     # redundant rewrite of unchanged bytes
        elif st == "bytes":
            rec = [(p, tgt[p:p + 1]) for i, j in runs for p in range(i, j)] or "S"
            if rec != "S":
                rng.shuffle(rec)
        else:  # random: garbage ranges first, then correct ranges (split / extended / duplicated / overlapping) in random order
            work = bytearray(cur)
            rec = []
            for _ in range(rng.choice([0, 0, 1, 2])):
                i = rng.randrange(n); j = rng.randrange(i + 1, min(n, i + 30) + 1)
                g = bytes(rng.randrange(256) for _ in range(j - i))
                rec.append((i, g)); work[i:j] = g
            fix = []
            for i, j in diff_runs(bytes(work), tgt):
                # extend over neighbours, then split at random points
                i2 = max(0, i - rng.choice([0, 0, 1, 3])); j2 = min(n, j + rng.choice([0, 0, 1, 5]))
                cuts = sorted({i2, j2} | {rng.randrange(i2, j2 + 1) for _ in range(rng.choice([0, 0, 1, 2]))})
                for a, b in zip(cuts, cuts[1:]):
                    if b > a:
                        fix.append((a, tgt[a:b]))
            rng.shuffle(fix)                             # correct ranges commute (they all write target bytes)
            for _ in range(rng.choice([0, 0, 1])):      # duplicates / redundant correct ranges anywhere
                i = rng.randrange(n); j = rng.randrange(i + 1, min(n, i + 40) + 1)
                fix.insert(rng.randrange(len(fix) + 1), (i, tgt[i:j]))
            rec += fix
            if not rec:
                rec = "S" if rng.random() < 0.7 else [(0, tgt[0:1])]
        if not rec_valid(n, rec):                        # record would not fit its 16-bit size word: fall back
            rec = [(0, tgt)]
        recs.append(rec)
        assert apply_rec(cur, rec) == tgt
        cur = tgt
    return recs


def rand_wrapper(rng):
    if rng.random() < 0.5:
        return None
    k = rng.choice([0, 0, 1, 2, 5])
    return (rng.choice([0, 1, -1, 0x13, 0x15, 0x1400, rng.randrange(-2 ** 31, 2 ** 31)]) if True else 0,
            rng.randrange(-5, 5), rng.choice([k, 0, -1]), rng.randrange(-3, 1000),
            [rng.randrange(-2 ** 31, 2 ** 31) for _ in range(k)], bytes(rng.randrange(256) for _ in range(rng.choice([0, 0, 1, 4, 9]))))


def fix_wrapper(w):
    if w is None:
        return None
    m = w[0] if w[0] != 0x14 else 0x15
    return (m,) + tuple(w[1:])


def expected(lay, cc, recs):
    fr = [read_frame(lay, b) for b in states(cc * FS[lay], recs)]
    return canon(fr) if all(f is not None for f in fr) else None


def file_bytes(spec, recs, w):
    inner = serialise(spec["lay"], spec["cc"], spec["fc"], spec["u1"], spec["u2"], recs)
    return wrap(w, inner) if w is not None else inner


def ser_line(spec, recs, w):
    return f"score ser {spec['lay']} {spec['cc']} {spec['fc']} {spec['u1']} {spec['u2']} {wrap_txt(w)} {recs_txt(recs)}"


def score_case(rng, kind="score", lay=None, cc=None, nframes=None, strategies=None, with_ser=True):
    lay = lay or rng.choice(["d4", "d5"])
    cc = cc if cc is not None else rng.choice([3, 3, 4, 5, 8, 50, rng.randrange(3, 51)])
    n = cc * FS[lay]
    nf = nframes if nframes is not None else rng.choice([1, 2, 3, 4, 6, rng.randrange(1, 12)])
    bufs, cur = [], rand_buffer(rng, lay, cc)
    for _ in range(nf):
        bufs.append(cur)
        cur = mutate_buffer(rng, lay, cc, cur)
    spec = dict(lay=lay, cc=cc, fc=rng.choice([nf, 0, -1, nf + 3]), u1=rng.randrange(-3, 9), u2=rng.randrange(-3, 9), nframes=nf)
    exp = canon([read_frame(lay, b) for b in bufs])
    strategies = strategies or rng.sample(["full", "min", "min-noS", "bytes", "random", "mixed", "random"], rng.choice([2, 2, 3]))
    lines, expect, encs = [], [], []
    for st in strategies:
        recs = encode_frames(rng, n, bufs, st)
        w = fix_wrapper(rand_wrapper(rng))
        data = file_bytes(spec, recs, w)
        lines.append(f"score parse {hx(data)}"); expect.append(exp)
        encs.append(dict(strategy=st, wrapped=w is not None, inner_off=(24 + 4 * len(w[4])) if w is not None else 0, recs=recs_txt(recs) if len(recs_txt(recs)) < 3000 else "(long)"))
        if with_ser and len(lines) <= 2:
            lines.append(f"score stepsum {hx(data)}"); expect.append(None)
            lines.append(ser_line(spec, recs, w)); expect.append(None)
            lines.append(f"score fold {lay} {cc} {recs_txt(recs)}"); expect.append(exp)
    spec["encodings"] = encs
    return Case(kind=kind, spec=spec, lines=lines, expect=expect)


def slack_record_cases(rng, n):
    """records that declare more bytes than their ranges use: the range list is closed by a zero (or negative) size word / padding,
    which the reader tolerates (`Delta size out of limits`, rest of the record skipped). The ranges before the terminator are applied
    and the NEXT record starts where the declared size says: one more encoding of the same frame sequence ("redundant bytes"), at any
    record position incl. a record without ranges (a frame equal to the previous one) and directly before a `same as previous` record
    (seeded change C08-m21: on that path the walker landed 2 bytes past the record)"""
    out = []
    for _ in range(n):
        lay = rng.choice(["d4", "d5"]); cc = rng.choice([3, 3, 4, 8])
        nb = cc * FS[lay]
        nf = rng.choice([2, 3, 4, 6])
        bufs, cur = [], rand_buffer(rng, lay, cc)
        for _k in range(nf):
            bufs.append(cur)
            cur = mutate_buffer(rng, lay, cc, cur) if rng.random() < 0.8 else cur
        spec = dict(lay=lay, cc=cc, fc=nf, u1=0, u2=0, nframes=nf)
        exp = canon([read_frame(lay, b) for b in bufs])
        recs = encode_frames(rng, nb, bufs, rng.choice(["min", "random", "mixed", "full"]))
        slack_at, body = [], b""
        for k, r in enumerate(recs):
            e = enc_rec(r)
            if rng.random() < 0.5 or k == 0:
                sl = rng.choice([b"\0\0", b"\0\0", b"\0\0\0\0", b"\xff\xff", b"\0\0\x01\x02\x03"])
                e = struct.pack(">h", len(e) + len(sl)) + e[2:] + sl
                slack_at.append([k, sl.hex(), r == "S"])
            body += e
        inner = struct.pack(">iiihhhh", 20 + len(body), 0x14, nf, 0, FS[lay], cc, 0) + body
        w = fix_wrapper(rand_wrapper(rng))
        data = wrap(w, inner) if w is not None else inner
        spec["slack_at"] = slack_at
        out.append(Case(kind="slack-records", spec=spec, lines=[f"score parse {hx(data)}"], expect=[exp]))
    return out


def single_range_cases(rng, lay, cc=3, sample=None):
    """every single-range delta (offset, length) on a small score: frame 1 = full rewrite, frame 2 = the delta, frame 3 = same"""
    n = cc * FS[lay]
    out = []
    base = rand_buffer(rng, lay, cc, density=1.0)
    offs = list(range(n))
    if sample is not None:
        offs = sorted(rng.sample(offs, sample))
    for off in offs:
        lines, expect = [], []
        for ln in range(1, n - off + 1):
            data = bytes((base[off + i] + 1 + rng.randrange(255)) % 256 for i in range(ln))   # every byte differs from what it replaces
            recs = [[(0, base)], [(off, data)], "S"]
            lead = rng.random() < 0.1
            if lead:
                recs = ["S"] + recs
            w = fix_wrapper(rand_wrapper(rng)) if rng.random() < 0.3 else None
            spec = dict(lay=lay, cc=cc, fc=3, u1=0, u2=0)
            lines.append(f"score parse {hx(file_bytes(spec, recs, w))}")
            expect.append(expected(lay, cc, recs))
            if ln in (1, n - off) and off % 7 == 0:
                lines.append(ser_line(spec, recs, w)); expect.append(None)
        out.append(Case(kind="single-range-exhaustive", spec=dict(lay=lay, cc=cc, off=off, base=base.hex()), lines=lines, expect=expect))
    return out


def same_pattern_cases(rng):
    """'same' records at every position (all S/delta patterns of length 1..4), both layouts, wrapped and not"""
    out = []
    for lay in ("d4", "d5"):
        cc = 3
        n = cc * FS[lay]
        for length in range(1, 5):
            for mask in range(1 << length):
                bufs_cur = rand_buffer(rng, lay, cc, density=1.0)
                recs, cur = [], bytes(n)
                for k in range(length):
                    if mask >> k & 1:
                        recs.append("S")
                    else:
                        tgt = mutate_buffer(rng, lay, cc, bufs_cur) if k else bufs_cur
                        bufs_cur = tgt
                        recs.append(encode_frames(rng, n, [tgt], "random")[0] if cur != tgt else [(5, tgt[5:9])])
                        cur = tgt
                spec = dict(lay=lay, cc=cc, fc=length, u1=0, u2=0, pattern="".join("S" if mask >> k & 1 else "d" for k in range(length)))
                lines, expect = [], []
                for w in (None, (0, 0, 0, 0, [], b""), (7, 1, 2, 3, [11, 12], b"\x01\x02\x03")):
                    lines.append(f"score parse {hx(file_bytes(spec, recs, w))}"); expect.append(expected(lay, cc, recs))
                lines.append(ser_line(spec, recs, None)); expect.append(None)
                lines.append(f"score fold {lay} {cc} {recs_txt(recs)}"); expect.append(expected(lay, cc, recs))
                out.append(Case(kind="same-positions", spec=spec, lines=lines, expect=expect))
    return out


def field_cases(rng, n):
    """one channel state, every field at its boundary values (both layouts): `channels` reads a buffer directly"""
    out = []
    for _ in range(n):
        lay = rng.choice(["d4", "d5"])
        cc = rng.choice([2, 3, 4])
        b = rand_buffer(rng, lay, cc, density=1.0)
        exp = read_frame(lay, b)
        out.append(Case(kind="fields", spec=dict(lay=lay, cc=cc, buf=b.hex()), lines=[f"score channels {lay} {hx(b)}"], expect=[canon(exp)]))
    return out


def ink_cases():
    """all 256 values of the ink byte and of the two flag2 bits, both layouts"""
    out = []
    for lay in ("d4", "d5"):
        fs = FS[lay]
        lines, expect = [], []
        for v in range(256):
            b = bytearray(3 * fs)
            put(b, L_SPR[lay], 2 * fs, castId=1, ink=v, flag2=(v << 8) | 1, flag1=0xFFFF, foregroundColor=v ^ 0x55, backgroundColor=255 - v)
            put(b, L_PAL[lay], fs, palette_id=-1, opcode=v, fps=v)
            if lay == "d4":
                put(b, L_MAIN[lay], 0, transition=v, transition_duration=v, transition_chunk_size=255 - v, fps=1)
            else:
                put(b, L_MAIN[lay], 0, fps=v - 128)
            lines.append(f"score channels {lay} {hx(bytes(b))}"); expect.append(canon(read_frame(lay, bytes(b))))
        out.append(Case(kind="byte-fields-exhaustive", spec=dict(lay=lay), lines=lines, expect=expect))
    return out


def malformed_cases(rng, n):
    """malformed stream: model vs implementation only (every real call runs under an alarm)"""
    out = []
    for k in range(n):
        c = score_case(rng, cc=rng.choice([3, 3, 4]), nframes=rng.choice([1, 2, 3]), strategies=[rng.choice(["min", "random", "bytes"])], with_ser=False)
        data = bytearray(bytes.fromhex(c.lines[0].split()[-1]))
        wrapped = c.spec["encodings"][0]["wrapped"]
        r = rng.random()
        what = ""
        if r < 0.25:
            cut = rng.randrange(0, len(data)); data = data[:cut]; what = f"truncate@{cut}"
            if rng.random() < 0.5 and len(data) >= 4 and not wrapped:
                data[0:4] = struct.pack(">i", len(data)); what += "+size-fixed"
        elif r < 0.75:
            # overwrite one 16-bit word (a size / offset / count word with high probability) with an adversarial value
            v = rng.choice([0, 0, 1, 1, -1, 2, 3, 4, 5, 6, 32767, -32768, 255, 256, len(data), 19, 20, 21, 24, 25])
            p = rng.choice([14, 16, 20, 22, 24] + [rng.randrange(0, max(1, len(data) - 1)) for _ in range(3)])
            if wrapped:
                p += rng.choice([0, 24, 24, 24])
            if p + 2 <= len(data):
                data[p:p + 2] = struct.pack(">h", v)
            what = f"word@{p}={v}"
        elif r < 0.9:
            p = rng.choice([0, 4, 8, 16] + [rng.randrange(0, max(1, len(data) - 3))])
            v = rng.choice([0, 1, -1, 0x14, 2 ** 31 - 1, -2 ** 31, len(data), len(data) - 1, -3, 0x7FFFFFF0 // 4])
            if p + 4 <= len(data):
                data[p:p + 4] = struct.pack(">i", v)
            what = f"dword@{p}={v}"
        else:
            for _ in range(3):
                data[rng.randrange(len(data))] = rng.randrange(256)
            what = "flip3"
        # a huge declared channel count with a valid frame size is legitimate slow work (32767 sprites per frame), not a hang:
        # keep it rare so that the quick tier stays quick
        io = c.spec["encodings"][0]["inner_off"]
        if len(data) >= io + 18:
            ccv = struct.unpack_from(">h", data, io + 16)[0]
            if ccv > 2000 and rng.random() < 0.97:
                struct.pack_into(">h", data, io + 16, rng.choice([0, 1, 2, 3, 1639]))
                what += "+cc-clamped"
        h = hx(bytes(data))
        lines = [f"score parse {h}", f"score parsedata {h}", f"score stepsobs {h}", f"score stepsum {h}"]
        big_by_right = len(data) >= io + 18 and struct.unpack_from(">h", data, io + 16)[0] > 2000
        if k % 4 == 0 and not big_by_right:
            # (a score that DECLARES tens of thousands of channels is large by right — 32767 x 24 list slots are 6.3 MB —: the
            # allocation bound is about memory unrelated to the declared size, as in header_cases)
            lines.append(f"score allocok {h}")
        out.append(Case(kind="malformed", spec=dict(what=what, hex=h[:3000]), lines=lines, expect=[None] * len(lines)))
    return out


def size_word_cases():
    """exhaustive small values of the record size word and of the two delta words (C10 quantifier; model vs impl + no hang)"""
    out = []
    for lay in ("d4", "d5"):
        fs = FS[lay]
        for where in ("record", "delta_size", "delta_off"):
            lines = []
            for v in list(range(-6, 40)) + [255, 256, 32767, -32768, -1, 3 * fs - 1, 3 * fs, 3 * fs + 1]:
                payload = bytes(range(1, 9))
                if where == "record":
                    body = struct.pack(">h", v) + struct.pack(">hh", 8, 4) + payload + struct.pack(">h", 2) + bytes(6)
                elif where == "delta_size":
                    body = struct.pack(">h", 2 + 4 + 8) + struct.pack(">hh", v, 4) + payload + struct.pack(">h", 2)
                else:
                    body = struct.pack(">h", 2 + 4 + 8) + struct.pack(">hh", 8, v) + payload + struct.pack(">h", 2)
                d = struct.pack(">iiihhhh", 20 + len(body), 0x14, 1, 0, fs, 3, 0) + body
                lines += [f"score parsedata {hx(d)}", f"score stepsobs {hx(d)}", f"score stepsum {hx(d)}"]
            out.append(Case(kind="size-words-exhaustive", spec=dict(lay=lay, where=where), lines=lines, expect=[None] * len(lines)))
    return out


def header_cases(heavy=False):
    """every header field at adversarial values (frame size validated before the allocation: F36)"""
    out = []
    lines = []
    for fsz in (0, 1, 19, 20, 21, 23, 24, 25, -1, -20, 32767, -32768):
        for cc in (0, 1, 2, 3, -1, 32767, -32768, 1638, 1639):
            body = struct.pack(">h", 2) + struct.pack(">h", 8) + struct.pack(">hh", 2, 0) + b"\x07\x08"
            d = struct.pack(">iiihhhh", 20 + len(body), 0x14, 1, 0, fsz, cc, 0) + body
            if fsz in (20, 24) and cc > 2000:
                # a legitimate 32767-channel score: its decoded frames are large by right, and slow to build; thorough tier only,
                # and the allocation bound (which is about memory *unrelated* to the declared size) is not applied to it
                if heavy:
                    lines += [f"score parsedata {hx(d)}"]
                continue
            lines += [f"score parsedata {hx(d)}", f"score allocok {hx(d)}", f"score stepsobs {hx(d)}", f"score stepsum {hx(d)}"]
    out.append(Case(kind="header-exhaustive", spec=dict(), lines=lines, expect=[None] * len(lines)))
    return out


def cases(rng, tier):
    n_score, n_field, n_mal, sr_sample = dict(quick=(700, 300, 700, 12), thorough=(40000, 6000, 12000, None), search=(15000, 1500, 0, None))[tier]
    out = []
    out += same_pattern_cases(rng)
    out += ink_cases()
    out += header_cases(heavy=(tier == "thorough")) + size_word_cases()
    # quick: every (offset, length) for the 20-byte layout on 3 channels is 1830 deltas, for the 24-byte layout 2628: both run
    out += single_range_cases(rng, "d4") + single_range_cases(rng, "d5")
    if tier != "quick":
        out += single_range_cases(rng, "d4", cc=4) + single_range_cases(rng, "d5", cc=5)
    out += [score_case(rng) for _ in range(n_score)]
    out += slack_record_cases(rng, max(60, n_score // 10))
    out += field_cases(rng, n_field)
    out += malformed_cases(rng, n_mal)
    return out


# ---------------------------------------------------------------------------------------------- real code

class _Timeout(BaseException):
    pass


def _alarm(signum, frame):
    raise _Timeout()


def guarded(f):
    """run f() under an alarm: a hang is reported as "timeout", any exception as "error" """
    old = signal.signal(signal.SIGALRM, _alarm)
    signal.setitimer(signal.ITIMER_REAL, TIMEOUT_S)
    try:
        return canon(f())
    except _Timeout:
        return canon("timeout")
    except MemoryError:
        return canon("memory")
    except Exception:
        return canon("error")
    finally:
        signal.setitimer(signal.ITIMER_REAL, 0)
        signal.signal(signal.SIGALRM, old)


_LINES = None


def _trace_lines():
    """line numbers of the first statement of the two loop bodies and of the byte-copy statement in parse_vwsc_data"""
    global _LINES
    if _LINES is None:
        import inspect
        from drxtract.vwsc import vwsc
        src, start = inspect.getsourcelines(vwsc.parse_vwsc_data)
        def find(txt):
            hits = [start + i for i, l in enumerate(src) if l.strip().startswith(txt)]
            if len(hits) != 1:
                raise RuntimeError("cannot locate loop line: " + txt)
            return hits[0]
        _LINES = (vwsc.parse_vwsc_data.__code__, find("column += 1"), find("delta_size = struct.unpack"), find("channelDataList[p] = deltaData[i]"))
    return _LINES


def steps_obs(data: bytes):
    """real iteration counts of the loops of parse_vwsc_data (sys.settrace line events on that code object only)"""
    from drxtract.vwsc import vwsc
    code, l_rec, l_delta, l_copy = _trace_lines()
    cnt = dict(records=0, deltas=0, copied=0, frames=0)
    def local(frame, event, arg):
        if event == "line":
            ln = frame.f_lineno
            if ln == l_rec: cnt["records"] += 1
            elif ln == l_delta: cnt["deltas"] += 1
            elif ln == l_copy: cnt["copied"] += 1
        return local
    def glob(frame, event, arg):
        if event == "call":
            if frame.f_code is code:
                return local
            if frame.f_code.co_name == "parse_vwsc_channels":
                cnt["frames"] += 1
        return None
    ok = True
    sys.settrace(glob)
    try:
        vwsc.parse_vwsc_data(data)
    except _Timeout:
        raise
    except Exception:
        ok = False
    finally:
        sys.settrace(None)
    if ok:
        return dict(ok=True, **cnt)
    return dict(ok=False, records=cnt["records"])     # counters inside a raising record are not compared


_LOOPLINES = None


def _loop_lines():
    """{code object: set of first-body-line numbers of its for/while loops} for the three functions of the score pipeline that loop"""
    global _LOOPLINES
    if _LOOPLINES is None:
        import ast, inspect, textwrap
        from drxtract.vwsc import vwsc, cparser
        out = {}
        for fn in (vwsc.parse_vwsc_data, vwsc.vwsc_to_score, cparser.VwscChannelParser.parse_vwsc_channels):
            src, start = inspect.getsourcelines(fn)
            tree = ast.parse(textwrap.dedent("".join(src)))
            out[fn.__code__] = {start + l.body[0].lineno - 1 for l in ast.walk(tree) if isinstance(l, (ast.For, ast.While))}
        _LOOPLINES = out
    return _LOOPLINES


def stepsum_real(data: bytes):
    """line events on the first body line of every loop of parse_vwsc_data, parse_vwsc_channels and vwsc_to_score while
    vwsc_to_score(parse_vwsc_file_data(data)) runs (C10's convention); counted whether or not the call raises"""
    from drxtract.vwsc import vwsc
    codes = _loop_lines()
    cnt = [0]
    def mk(lines):
        def local(frame, event, arg):
            if event == "line" and frame.f_lineno in lines:
                cnt[0] += 1
            return local
        return local
    def glob(frame, event, arg):
        if event == "call" and frame.f_code in codes:
            return mk(codes[frame.f_code])
        return None
    sys.settrace(glob)
    try:
        vwsc.vwsc_to_score(vwsc.parse_vwsc_file_data(data))
    except _Timeout:
        raise
    except Exception:
        pass
    finally:
        sys.settrace(None)
    return cnt[0]


def alloc_ok(data: bytes):
    """peak traced allocation of parse_vwsc_data stays below 4 MiB (the largest legitimate buffer is 32767*24 bytes)"""
    import tracemalloc
    from drxtract.vwsc import vwsc
    tracemalloc.start()
    try:
        try:
            vwsc.parse_vwsc_data(data)
        except _Timeout:
            raise
        except Exception:
            pass
        peak = tracemalloc.get_traced_memory()[1]
    finally:
        tracemalloc.stop()
    return peak < 4 * 1024 * 1024


def impl(case):
    from drxtract.vwsc.vwsc import parse_vwsc_file_data, parse_vwsc_data, CHANNEL_PARSERS
    B = lambda s: bytes.fromhex("" if s == "-" else s)
    out = []
    for line in case["lines"]:
        t = line.split()
        cmd = t[1]
        if cmd == "parse":
            out.append(guarded(lambda: parse_vwsc_file_data(B(t[2]))))
        elif cmd == "parsedata":
            out.append(guarded(lambda: parse_vwsc_data(B(t[2]))))
        elif cmd == "channels":
            out.append(guarded(lambda: CHANNEL_PARSERS[FS[t[2]]].parse_vwsc_channels(bytearray(B(t[3])), 1)))
        elif cmd == "stepsobs":
            out.append(guarded(lambda: steps_obs(B(t[2]))))
        elif cmd == "stepsum":
            out.append(guarded(lambda: stepsum_real(B(t[2]))))
        elif cmd == "allocok":
            out.append(guarded(lambda: alloc_ok(B(t[2]))))
        elif cmd == "ser":
            # the harness's own encoder on the spec object of the line (compared with the Lean encoder of the theorems)
            lay, cc, fc, u1, u2, w, recs = t[2], int(t[3]), int(t[4]), int(t[5]), int(t[6]), wrap_parse(t[7]), recs_parse(t[8])
            inner = serialise(lay, cc, fc, u1, u2, recs)
            n = cc * FS[lay]
            valid = all(rec_valid(n, r) for r in recs) and n <= 32768 and cc <= 32767
            if w is not None:
                valid = valid and w[0] != 0x14
            out.append(canon(dict(valid=valid, hex=(wrap(w, inner) if w is not None else inner).hex())))
        elif cmd == "fold":
            lay, cc, recs = t[2], int(t[3]), recs_parse(t[4])
            out.append(guarded(lambda: parse_vwsc_data(serialise(lay, cc, len(recs), 0, 0, recs))))
        else:
            out.append("bad-op")
    return out


def oracle(case, io):
    if any(x == '"timeout"' for x in io):
        return "a call on the real code did not return within %d s (hang)" % TIMEOUT_S
    if any(x == '"memory"' for x in io):
        return "a call on the real code ran out of memory"
    # all encodings of one frame sequence decode identically (pairwise, independent of the expected value)
    if case["kind"] in ("score", "pairs"):
        outs = [o for l, o in zip(case["lines"], io) if l.split()[1] == "parse"]
        if len(set(outs)) > 1:
            return "two encodings of the same frame sequence decode differently"
    for l, o in zip(case["lines"], io):
        if l.split()[1] == "allocok" and o != "true":
            return "parse_vwsc_data allocated more than 4 MiB (the largest legitimate channel buffer is 786 408 bytes)"
    return None


def nontrivial(case, io):
    return case["kind"] not in ("malformed", "size-words-exhaustive", "header-exhaustive") and any(x.startswith("[{") or x.startswith('{"main"') for x in io)


def neighbours(case, rng):
    return []


MATCHERS = {}

if __name__ == "__main__":
    import core
    sys.exit(core.main("c08"))
