"""merges known_findings.d/<P>.json (written by property builders) into the single committed known_findings.json"""
import json, sys
from pathlib import Path
V = Path(__file__).resolve().parent.parent
main = json.loads((V / "known_findings.json").read_text())
have = {(e["id"], e.get("property")) for e in main}
for p in sorted((V / "known_findings.d").glob("*.json")):
    if sys.argv[1:] and p.stem not in sys.argv[1:]:
        continue
    for e in json.loads(p.read_text()):
        k = (e["id"], e.get("property"))
        if k in have:
            main = [x for x in main if (x["id"], x.get("property")) != k]
        main.append(e); have.add(k)
    p.unlink()
    print("merged", p.name)
main.sort(key=lambda e: (e.get("property", ""), e["id"]))
(V / "known_findings.json").write_text(json.dumps(main, indent=1))
