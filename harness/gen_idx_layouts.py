"""Stage G translator for the index/text chunk readers (C17, C16): extends harness/gen_layouts.py (whose API is untouched).

`describe(path, func)` walks the WHOLE body of a reader function, symbolically tracking every index variable as a linear
expression over names, and records

  * every fixed-width field read     struct.unpack(F, buf[a:b])[0]   /   int(buf[i])   /   parse_chunk_id(buf, pos, order)
    as (name, buffer, base symbol, offset, width, signed, order),
  * every variable-length slice read  buf[a:b] / buf[a:b].decode(get_encoding())        as (name, buffer, lo, hi) in source terms,
  * for every loop: its count / test expression, the value of each index variable on entry, the fields and slices of the body
    RELATIVE to the index variables, and the stride (value of the index variable at the end of the body),
  * derived positions such as  mnidx = 2 + 4 * (nmarkers + 1),  name_start = mnidx + <field>.

It REFUSES (raises gen_layouts.Refuse) on every statement form it does not recognise.  The per-family functions below turn the
description into Lean (`Drx/Gen/IdxLayouts.lean`, `Drx/Gen/TextLayouts.lean`): `List Field` definitions for the generic readers and
`List (String × String)` "shape" facts (byte order, loop counts, entry positions, strides, slice bounds) that DrxProps/C17.lean and
C16.lean compare with the hand-written models by kernel-checked theorems.
"""
import ast
from pathlib import Path
from core import REPO
from gen_common import lean_str
from gen_layouts import FMT, Refuse, _fmt_of, _unpack_call, lean_layout


# ---------------------------------------------------------------------------------------------- linear expressions

# Python local names never reach the generated shapes: a variable assigned from a field read is written as that field
# (`h8` = the top-level field at offset 8 of the chunk, `e0` = the loop-body field at offset 0 of the current record,
# `buf1.12` = field at 12 of the first sub-buffer), position variables as `p`, sub-buffers as `buf1`, `buf2`.
# Renaming a local therefore breaks nothing; changing what is read, where, or how far the position moves does.
CANON = {}


class _Ren(ast.NodeTransformer):
    def visit_Name(self, node):
        return ast.copy_location(ast.Name(id=CANON.get(node.id, node.id), ctx=node.ctx), node)


def csrc(node):
    import copy
    return ast.unparse(_Ren().visit(copy.deepcopy(node)))

class Lin:
    def __init__(self, const=0, syms=None):
        self.c, self.s = const, dict(syms or {})

    def add(self, o, k=1):
        r = Lin(self.c + k * o.c, self.s)
        for n, v in o.s.items():
            r.s[n] = r.s.get(n, 0) + k * v
            if r.s[n] == 0:
                del r.s[n]
        return r

    def scale(self, k):
        return Lin(self.c * k, {n: v * k for n, v in self.s.items() if v * k})

    def split(self, sym=None):
        """(symbolic part as canonical text or None, constant): positions are `<symbolic base> + constant`"""
        if not self.s:
            return None, self.c
        if any(v < 0 for v in self.s.values()):
            raise Refuse("negative symbol in a position: " + str(self))
        return str(Lin(0, self.s)), self.c

    def __str__(self):
        parts = []
        for n, v in self.s.items():
            n = CANON.get(n, n)
            t = n if abs(v) == 1 else f"{abs(v)}*{n}"
            parts.append(("-" if v < 0 else "+") + t)
        if self.c or not parts:
            parts.append(("-" if self.c < 0 else "+") + str(abs(self.c)))
        s = "".join(parts)
        return s[1:] if s.startswith("+") else s


def lin_of(node, env):
    if isinstance(node, ast.Constant) and isinstance(node.value, int) and not isinstance(node.value, bool):
        return Lin(node.value)
    if isinstance(node, ast.Name):
        return env[node.id] if node.id in env else Lin(0, {node.id: 1})
    if isinstance(node, ast.BinOp) and isinstance(node.op, (ast.Add, ast.Sub)):
        return lin_of(node.left, env).add(lin_of(node.right, env), 1 if isinstance(node.op, ast.Add) else -1)
    if isinstance(node, ast.BinOp) and isinstance(node.op, ast.Mult):
        l, r = lin_of(node.left, env), lin_of(node.right, env)
        if not l.s:
            return r.scale(l.c)
        if not r.s:
            return l.scale(r.c)
    raise Refuse("not a linear index expression: " + ast.unparse(node)[:80])


# ---------------------------------------------------------------------------------------------- the walker

class Desc:
    def __init__(self):
        self.fields, self.blobs, self.loops, self.derived, self.branches = [], [], [], {}, []


class Walker:
    def __init__(self, fn, buffers):
        self.fn = fn
        self.buffers = set(buffers)
        # names used inside a buffer subscript anywhere in the function = index variables
        self.index_names = set()
        for n in ast.walk(fn):
            if isinstance(n, ast.Subscript) and isinstance(n.value, ast.Name):
                for m in ast.walk(n.slice):
                    if isinstance(m, ast.Name):
                        self.index_names.add(m.id)
        CANON.clear()
        for n in self.index_names:
            CANON[n] = "p"
        self.depth = 0
        self.nbuf = 0
        self.nacc = 0

    # -- recognisers
    def reads(self, node):
        for n in ast.walk(node):
            if isinstance(n, ast.Subscript) and isinstance(n.value, ast.Name) and n.value.id in self.buffers:
                return True
            if isinstance(n, ast.Call) and any(isinstance(a, ast.Name) and a.id in self.buffers for a in n.args) and not (
                    isinstance(n.func, ast.Name) and n.func.id == "len"):
                return True
        return False

    def assigns_index(self, node):
        for n in ast.walk(node):
            if isinstance(n, (ast.Assign, ast.AugAssign, ast.AnnAssign)):
                for t in (n.targets if isinstance(n, ast.Assign) else [n.target]):
                    if isinstance(t, ast.Name) and t.id in self.index_names:
                        return True
        return False

    def field_of_unpack(self, name, uc, env):
        fnode, snode, indexed = uc
        order, fmt = _fmt_of(fnode)
        if not indexed or len(fmt) != 1 or fmt not in FMT:
            raise Refuse(f"unpack form {ast.unparse(fnode)} at {name}")
        if not (isinstance(snode, ast.Subscript) and isinstance(snode.value, ast.Name) and snode.value.id in self.buffers
                and isinstance(snode.slice, ast.Slice) and snode.slice.lower is not None and snode.slice.upper is not None):
            raise Refuse("unpack argument " + ast.unparse(snode)[:80])
        lo, hi = lin_of(snode.slice.lower, env), lin_of(snode.slice.upper, env)
        w, sg = FMT[fmt]
        d = hi.add(lo, -1)
        if d.s or d.c != w:
            raise Refuse(f"{name}: slice width {d} does not match format {fmt!r}")
        base, off = lo.split(None)
        return self.record(dict(name=name, buf=snode.value.id, base=base, off=off, width=w, signed=sg, order=order, kind="int"))

    def record(self, f):
        """a variable assigned from a field read is referred to as that field from here on"""
        b = CANON.get(f["buf"], f["buf"])
        pre = "" if b == "fdata" else b + "."
        if self.depth:
            tok = f"{pre}e{f['off']}"
        elif f["base"] is None:
            tok = f"{pre}h{f['off']}"
        else:
            tok = f"{pre}h({f['base']}+{f['off']})"
        f["buf"] = b
        CANON[f["name"]] = tok
        return f

    def byte_read(self, node):
        """int(buf[i])"""
        if (isinstance(node, ast.Call) and isinstance(node.func, ast.Name) and node.func.id == "int" and len(node.args) == 1
                and isinstance(node.args[0], ast.Subscript) and isinstance(node.args[0].value, ast.Name)
                and node.args[0].value.id in self.buffers and not isinstance(node.args[0].slice, ast.Slice)):
            return node.args[0]
        return None

    def blob_read(self, node):
        """buf[a:b]  or  buf[a:b].decode(<anything>)  -> (subscript node, decoder source or None)"""
        dec = None
        if isinstance(node, ast.Call) and isinstance(node.func, ast.Attribute) and node.func.attr == "decode":
            dec = ast.unparse(node.args[0]) if node.args else ""
            node = node.func.value
        if (isinstance(node, ast.Subscript) and isinstance(node.value, ast.Name) and node.value.id in self.buffers
                and isinstance(node.slice, ast.Slice) and node.slice.step is None):
            return node, dec
        if dec is not None and isinstance(node, ast.Name) and node.id in self.buffers:
            return node, dec              # a whole (sub-)buffer handed to the codec
        return None

    def id_read(self, node):
        if (isinstance(node, ast.Call) and isinstance(node.func, ast.Name) and node.func.id == "parse_chunk_id" and len(node.args) == 3
                and isinstance(node.args[0], ast.Name) and node.args[0].id in self.buffers):
            return node
        return None

    # -- statements
    def walk(self, stmts, env, desc, toplevel=True):
        for st in stmts:
            if isinstance(st, ast.Expr):
                if isinstance(st.value, ast.Constant) and isinstance(st.value.value, str):
                    continue
                if self.reads(st.value):
                    raise Refuse(f"line {st.lineno}: expression statement reads the buffer")
                continue
            if isinstance(st, (ast.Return, ast.Raise)):
                return
            if isinstance(st, ast.AugAssign):
                if not isinstance(st.target, ast.Name) or not isinstance(st.op, (ast.Add, ast.Sub)) or self.reads(st.value):
                    raise Refuse(f"line {st.lineno}: augmented assignment")
                if st.target.id not in self.index_names:
                    # an accumulator over already read data (e.g. `names_size += len(name_data)`): recorded in source terms
                    if st.target.id not in CANON:
                        self.nacc += 1
                        CANON[st.target.id] = f"acc{self.nacc}"
                    desc.derived.setdefault("accs", []).append(f"{CANON[st.target.id]} {'+' if isinstance(st.op, ast.Add) else '-'}= {csrc(st.value)}")
                    env.pop(st.target.id, None)
                    continue
                cur = env.get(st.target.id, Lin(0, {st.target.id: 1}))
                env[st.target.id] = cur.add(lin_of(st.value, env), 1 if isinstance(st.op, ast.Add) else -1)
                continue
            if isinstance(st, (ast.Assign, ast.AnnAssign)):
                tgts = st.targets if isinstance(st, ast.Assign) else [st.target]
                val = st.value
                if len(tgts) != 1 or val is None:
                    raise Refuse(f"line {st.lineno}: assignment form")
                tgt = tgts[0]
                if not isinstance(tgt, ast.Name):
                    if self.reads(val):
                        raise Refuse(f"line {st.lineno}: buffer read stored into a non-name target")
                    continue
                self.assign(tgt.id, val, env, desc, st.lineno)
                continue
            if isinstance(st, ast.If):
                self.branch(st, env, desc)
                continue
            if isinstance(st, (ast.For, ast.While)):
                if not self.reads(st) and not self.assigns_index(st):
                    continue              # a loop over already decoded data (e.g. the font lookup): no layout content
                self.loop(st, env, desc)
                continue
            raise Refuse(f"line {st.lineno}: statement {type(st).__name__}")

    def assign(self, name, val, env, desc, lineno):
        uc = _unpack_call(val)
        if uc is not None:
            desc.fields.append(self.field_of_unpack(name, uc, env))
            env.pop(name, None)
            return
        if isinstance(val, ast.BinOp) and isinstance(val.op, ast.Add) and _unpack_call(val.right) is not None and not self.reads(val.left):
            f = self.field_of_unpack(name, _unpack_call(val.right), env)
            desc.fields.append(f)
            desc.derived[CANON[name]] = f"{lin_of(val.left, env)}+<{CANON[name]}>"
            env.pop(name, None)
            return
        b = self.byte_read(val)
        if b is not None:
            base, off = lin_of(b.slice, env).split(None)
            desc.fields.append(self.record(dict(name=name, buf=b.value.id, base=base, off=off, width=1, signed=False, order="byte", kind="byte")))
            env.pop(name, None)
            return
        bl = self.blob_read(val)
        if bl is not None:
            node, dec = bl
            if isinstance(node, ast.Name):
                desc.blobs.append(dict(name=name, buf=CANON.get(node.id, node.id), lo="0", hi="end", decode=dec))
                env.pop(name, None)
                return
            lo = lin_of(node.slice.lower, env) if node.slice.lower is not None else Lin(0)
            hi = str(lin_of(node.slice.upper, env)) if node.slice.upper is not None else "end"
            desc.blobs.append(dict(name=name, buf=CANON.get(node.value.id, node.value.id), lo=str(lo), hi=hi, decode=dec))
            if dec is None:
                self.buffers.add(name)
                self.nbuf += 1
                CANON[name] = f"buf{self.nbuf}"
            env.pop(name, None)
            return
        idn = self.id_read(val)
        if idn is not None:
            base, off = lin_of(idn.args[1], env).split(None)
            desc.fields.append(self.record(dict(name=name, buf=idn.args[0].id, base=base, off=off, width=4, signed=False,
                                                order="param" if isinstance(idn.args[2], ast.Name) else ast.unparse(idn.args[2]), kind="id")))
            env.pop(name, None)
            return
        if self.reads(val):
            raise Refuse(f"line {lineno}: unrecognised buffer read: {ast.unparse(val)[:80]}")
        try:
            env[name] = lin_of(val, env)      # plain position arithmetic (indx = indx + 4, mnidx = 2 + 4 * (n + 1), counters)
        except Refuse:
            env.pop(name, None)          # opaque value: the name is a symbol of its own from here on

    def branch(self, st, env, desc):
        # guard: `if cond: [logging / message building]; raise`
        if not st.orelse and st.body and isinstance(st.body[-1], ast.Raise) and not self.reads(st) and not self.assigns_index(st):
            desc.derived.setdefault("guards", [])
            desc.derived["guards"].append(csrc(st.test))
            return
        if not self.reads(st) and not self.assigns_index(st):
            return                        # pure data shuffling (e.g. the version cascade, `if cas_index > 0 and nfile > 0`)
        # branches that read: each arm is described on its own, with a copy of the environment
        node = st
        while True:
            arm = Desc()
            e2 = {k: v for k, v in env.items()}
            self.walk(node.body, e2, arm, toplevel=False)
            if arm.loops or arm.branches:
                raise Refuse(f"line {node.lineno}: nested control flow inside a reading branch")
            desc.branches.append(dict(test=csrc(node.test), fields=arm.fields, blobs=arm.blobs))
            if len(node.orelse) == 1 and isinstance(node.orelse[0], ast.If):
                node = node.orelse[0]
                continue
            if node.orelse:
                arm = Desc()
                self.walk(node.orelse, {k: v for k, v in env.items()}, arm, toplevel=False)
                desc.branches.append(dict(test="else", fields=arm.fields, blobs=arm.blobs))
            break
        for n in self.index_names:
            if any(isinstance(t, ast.Name) and t.id == n for a in ast.walk(st) if isinstance(a, ast.Assign) for t in a.targets):
                env.pop(n, None)          # position after the branch is not tracked

    def loop(self, st, env, desc):
        info = dict(line=st.lineno)
        if isinstance(st, ast.For):
            it = st.iter
            if not (isinstance(it, ast.Call) and isinstance(it.func, ast.Name) and it.func.id == "range" and 1 <= len(it.args) <= 2
                    and isinstance(st.target, ast.Name) and not st.orelse):
                raise Refuse(f"line {st.lineno}: for-loop form")
            if len(it.args) == 2 and not (isinstance(it.args[0], ast.Constant) and it.args[0].value == 0):
                raise Refuse(f"line {st.lineno}: range start")
            info["kind"], info["count"], info["var"] = "for", str(lin_of(it.args[-1], env)), st.target.id
        else:
            if st.orelse:
                raise Refuse("while/else")
            info["kind"], info["count"], info["var"] = "while", csrc(st.test), None
        used = {n.id for n in ast.walk(st) if isinstance(n, ast.Name)} & self.index_names
        info["entry"] = {CANON.get(n, n): str(env.get(n, Lin(0, {n: 1}))) for n in sorted(used) if n != info["var"] and n in env}
        body = Desc()
        e2 = {k: v for k, v in env.items() if k not in self.index_names or k not in used}
        # non-index linear names (e.g. mnidx) stay resolved; index variables become symbols: the body is described relative to them
        self.depth += 1
        self.walk(st.body, e2, body, toplevel=False)
        self.depth -= 1
        if body.loops or body.branches:
            raise Refuse(f"line {st.lineno}: nested control flow inside a loop body")
        info["fields"], info["blobs"], info["derived"] = body.fields, body.blobs, body.derived
        info["stride"] = {CANON.get(n, n): str(e2[n].add(Lin(0, {n: 1}), -1)) for n in sorted(used) if n != info["var"] and n in e2 and CANON.get(n) == "p"}
        desc.loops.append(info)
        for n in used:
            env.pop(n, None)              # after the loop the position depends on the data


def describe(path: Path, func: str, buffers=("fdata",)):
    tree = ast.parse(path.read_text())
    fn = next((n for n in ast.walk(tree) if isinstance(n, ast.FunctionDef) and n.name == func), None)
    if fn is None:
        raise Refuse(f"{path.name}: no function {func}")
    w, d = Walker(fn, buffers), Desc()
    w.walk(fn.body, {}, d)
    return d


# ---------------------------------------------------------------------------------------------- Lean emission

def _fields(fs, buf, base, kinds=("int",), order=None):
    sel = [f for f in fs if f["buf"] == buf and f["base"] == base and f["kind"] in kinds]
    if order is not None:
        for f in sel:
            if f["order"] not in order:
                raise Refuse(f"{f['name']}: byte order {f['order']!r}, expected one of {order}")
    return [(f["name"], f["off"], f["width"], f["signed"], f["order"]) for f in sel]


def _expect_all(fs, groups, what):
    """every recorded field must belong to one of the (buf, base, kinds) groups the family emits: no silent drops"""
    for f in fs:
        if not any(f["buf"] == b and f["base"] == s and f["kind"] in k for b, s, k in groups):
            raise Refuse(f"{what}: field {f['name']} on {f['buf']}[{f['base']}+{f['off']}] ({f['kind']}) is not part of any emitted layout")


def _shape(name, pairs):
    rows = ", ".join(f"({lean_str(k)}, {lean_str(str(v))})" for k, v in pairs)
    return f"def {name} : List (String × String) := [{rows}]"


def _blobs(bl):
    return [(f"slice:{i}", f"{b['buf']}[{b['lo']}:{b['hi']}]" + (f".decode({b['decode']})" if b["decode"] is not None else "")) for i, b in enumerate(bl)]


def _loop_shape(lp, tag=""):
    out = [(tag + "loop", lp["kind"]), (tag + "count", lp["count"])]
    out += [(tag + f"entry:{k}", v) for k, v in lp["entry"].items()]
    out += [(tag + f"stride:{k}", v) for k, v in lp["stride"].items()]
    out += [(tag + k, v) for k, v in _blobs(lp["blobs"])]
    out += [(tag + f"derived:{k}", v) for k, v in lp["derived"].items() if k not in ("guards", "accs")]
    out += [(tag + f"acc:{i}", g) for i, g in enumerate(lp["derived"].get("accs", []))]
    out += [(tag + f"guard:{i}", g) for i, g in enumerate(lp["derived"].get("guards", []))]
    return out


def _top_shape(d):
    out = [(f"derived:{k}", v) for k, v in d.derived.items() if k not in ("guards", "accs")]
    out += [(f"guard:{i}", g) for i, g in enumerate(d.derived.get("guards", []))]
    out += _blobs(d.blobs)
    return out


def _orders(fs):
    return ",".join(sorted({f["order"] for f in fs})) or "-"


def gen_idx_layouts():
    R = REPO / "drxtract"
    L = ["-- GENERATED by harness/gen_idx_layouts.py from /repo on every run; do not edit", "import Drx.Layout",
         "namespace Drx.Gen.IdxLayouts", "open Drx.Layout", ""]
    # key ----------------------------------------------------------------------------------------
    d = describe(R / "key" / "key.py", "parse_key_file_data")
    if len(d.loops) != 1 or d.branches:
        raise Refuse("key.py: expected exactly one loop and no reading branch")
    lp = d.loops[0]
    _expect_all(d.fields, [("fdata", None, ("int",))], "key header")
    _expect_all(lp["fields"], [("fdata", "p", ("int", "id"))], "key entry")
    L.append(lean_layout("keyHeader", _fields(d.fields, "fdata", None, order=("param",))))
    L.append(lean_layout("keyEntry", _fields(lp["fields"], "fdata", "p", order=("param",))))
    L.append(lean_layout("keyEntryIds", _fields(lp["fields"], "fdata", "p", kinds=("id",), order=("param",))))
    L.append(_shape("keyShape", [("order", _orders(d.fields + lp["fields"]))] + _top_shape(d) + _loop_shape(lp)))
    # cas ----------------------------------------------------------------------------------------
    d = describe(R / "cas" / "cas.py", "parse_cas_file_data")
    if len(d.loops) != 1 or d.branches or d.fields:
        raise Refuse("cas.py: expected one loop only")
    lp = d.loops[0]
    _expect_all(lp["fields"], [("fdata", "p", ("int",))], "cas slot")
    L.append(lean_layout("casSlot", _fields(lp["fields"], "fdata", "p", order=(">",))))
    L.append(_shape("casShape", [("order", _orders(lp["fields"]))] + _top_shape(d) + _loop_shape(lp)))
    # lctx ---------------------------------------------------------------------------------------
    d = describe(R / "lctx" / "lctx.py", "parse_lctx_file_data")
    if len(d.loops) != 1 or d.branches:
        raise Refuse("lctx.py: expected exactly one loop")
    lp = d.loops[0]
    _expect_all(d.fields, [("fdata", None, ("int",))], "lctx header")
    _expect_all(lp["fields"], [("fdata", "p", ("int",))], "lctx entry")
    L.append(lean_layout("lctxHeader", _fields(d.fields, "fdata", None, order=(">",))))
    L.append(lean_layout("lctxEntry", _fields(lp["fields"], "fdata", "p", order=(">",))))
    L.append(_shape("lctxShape", [("order", _orders(d.fields + lp["fields"]))] + _top_shape(d) + _loop_shape(lp)))
    # lnam ---------------------------------------------------------------------------------------
    d = describe(R / "lingosrc" / "parse" / "lnam.py", "parse_lnam_file_data")
    if len(d.loops) != 1 or d.branches:
        raise Refuse("lnam.py: expected exactly one loop")
    lp = d.loops[0]
    _expect_all(d.fields, [("fdata", None, ("int",))], "lnam header")
    _expect_all(lp["fields"], [("fdata", "p", ("byte",))], "lnam entry")
    L.append(lean_layout("lnamHeader", _fields(d.fields, "fdata", None, order=("param",))))
    L.append(lean_layout("lnamEntry", _fields(lp["fields"], "fdata", "p", kinds=("byte",))))
    L.append(_shape("lnamShape", [("order", _orders(d.fields)), ("order_symbol", _order_symbol(R / "lingosrc" / "parse" / "lnam.py", "lnam_bit_order"))]
                    + _top_shape(d) + _loop_shape(lp)))
    # vwlb ---------------------------------------------------------------------------------------
    d = describe(R / "vwlb" / "vwlb.py", "parse_vwlb_data")
    if len(d.loops) != 1 or d.branches:
        raise Refuse("vwlb.py: expected exactly one loop")
    lp = d.loops[0]
    _expect_all(d.fields, [("fdata", None, ("int",))], "vwlb header")
    _expect_all(lp["fields"], [("fdata", "p", ("int",))], "vwlb record")
    L.append(lean_layout("vwlbHeader", _fields(d.fields, "fdata", None, order=(">",))))
    L.append(lean_layout("vwlbEntry", _fields(lp["fields"], "fdata", "p", order=(">",))))
    L.append(_shape("vwlbShape", [("order", _orders(d.fields + lp["fields"]))] + _top_shape(d) + _loop_shape(lp)))
    # vwcf ---------------------------------------------------------------------------------------
    d = describe(R / "vwcf" / "vwcf.py", "parse_vwcf_file_data")
    if d.loops:
        raise Refuse("vwcf.py: unexpected loop")
    _expect_all(d.fields, [("fdata", None, ("int", "byte"))], "vwcf words")
    L.append(lean_layout("vwcfWords", _fields(d.fields, "fdata", None, order=(">",))))
    L.append(lean_layout("vwcfBytes", _fields(d.fields, "fdata", None, kinds=("byte",))))
    arms = {b["test"]: b for b in d.branches}
    for test, nm in (("h2 == 'dir4'", "vwcfPaletteDir4"), ("h2 == 'dir5'", "vwcfPaletteDir5")):
        if test not in arms:
            raise Refuse(f"vwcf.py: no branch `{test}`")
        _expect_all(arms[test]["fields"], [("fdata", None, ("int",))], nm)
        L.append(lean_layout(nm, _fields(arms[test]["fields"], "fdata", None, order=(">",))))
    other = [b for b in d.branches if b["test"] not in ("h2 == 'dir4'", "h2 == 'dir5'")]
    if any(b["fields"] or b["blobs"] for b in other):
        raise Refuse("vwcf.py: a palette read in an unexpected branch")
    L.append(_shape("vwcfShape", [("order", _orders(d.fields)), ("branches", "|".join(b["test"] for b in d.branches))] +
                    [(k, v) for k, v in _top_shape(d) if not k.startswith("derived:")]))
    L += ["", "end Drx.Gen.IdxLayouts"]
    return {"Drx/Gen/IdxLayouts.lean": "\n".join(L) + "\n"}


def _order_symbol(path, name):
    """value of a local `name = '>'` assignment used as the byte-order prefix"""
    for n in ast.walk(ast.parse(path.read_text())):
        if isinstance(n, ast.Assign) and len(n.targets) == 1 and isinstance(n.targets[0], ast.Name) and n.targets[0].id == name:
            if isinstance(n.value, ast.Constant) and isinstance(n.value.value, str):
                return n.value.value
    raise Refuse(f"{path.name}: byte-order variable {name} not found")


def gen_text_layouts():
    R = REPO / "drxtract"
    L = ["-- GENERATED by harness/gen_idx_layouts.py from /repo on every run; do not edit", "import Drx.Layout",
         "namespace Drx.Gen.TextLayouts", "open Drx.Layout", ""]
    # stxt ---------------------------------------------------------------------------------------
    d = describe(R / "stxt" / "stxt.py", "parse_stxt_data")
    if len(d.loops) != 1 or d.branches:
        raise Refuse("stxt.py: expected exactly one loop")
    lp = d.loops[0]
    _expect_all(d.fields, [("fdata", None, ("int",)), ("fdata", "h0+h4", ("int",))], "stxt header")
    _expect_all(lp["fields"], [("fdata", "p", ("int", "byte"))], "stxt style record")
    L.append(lean_layout("stxtHeader", _fields(d.fields, "fdata", None, order=(">",))))
    L.append(lean_layout("stxtCount", _fields(d.fields, "fdata", "h0+h4", order=(">",))))
    L.append(lean_layout("stxtRun", _fields(lp["fields"], "fdata", "p", kinds=("int", "byte"), order=(">", "byte"))))
    L.append(_shape("stxtShape", [("order", _orders(d.fields + lp["fields"]))] + _top_shape(d) + _loop_shape(lp)))
    # fmap ---------------------------------------------------------------------------------------
    d = describe(R / "fmap" / "fmap.py", "parse_fmap_data")
    if len(d.loops) != 2 or d.branches:
        raise Refuse("fmap.py: expected exactly two loops")
    l1, l2 = d.loops
    _expect_all(d.fields, [("fdata", None, ("int",)), ("buf1", None, ("int",))], "fmap header")
    _expect_all(l1["fields"], [("buf1", "p", ("int",))], "fmap metadata record")
    _expect_all(l2["fields"], [("buf2", "p", ("int",))], "fmap font record")
    L.append(lean_layout("fmapSizes", _fields(d.fields, "fdata", None, order=(">",))))
    L.append(lean_layout("fmapHeader", _fields(d.fields, "buf1", None, order=(">",))))
    L.append(lean_layout("fmapMeta", _fields(l1["fields"], "buf1", "p", order=(">",))))
    L.append(lean_layout("fmapFont", _fields(l2["fields"], "buf2", "p", order=(">",))))
    L.append(_shape("fmapShape", [("order", _orders(d.fields + l1["fields"] + l2["fields"]))] + _top_shape(d) + _loop_shape(l1, "meta.") + _loop_shape(l2, "font.")))
    L += ["", "end Drx.Gen.TextLayouts"]
    return {"Drx/Gen/TextLayouts.lean": "\n".join(L) + "\n"}


if __name__ == "__main__":
    for k, v in {**gen_idx_layouts(), **gen_text_layouts()}.items():
        print("--", k)
        print(v)
