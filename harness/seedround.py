"""seedround.py run <tag> [P...]        run harness/seedtest.sh for every /tmp/<tag>_<P>_out/m*/ (3 at a time), print a table
   seedround.py archive <tag> "<round label>" [special.json]
                                     archive every seed of the round under seeded/<P>-m<k> (next free k); seeds that were caught
                                     with a failing input get a standard `check_result`; for the others special.json must hold
                                     {"<P> <m>": "<text>"} (a miss must be explained, never archived silently)
   seedround.py clean <tag>          remove the round's worktrees and scratch output"""
import glob, json, os, re, subprocess, sys
from concurrent.futures import ThreadPoolExecutor
from pathlib import Path

V = Path(__file__).resolve().parent.parent


def seeds(tag, props):
    out = []
    for d in sorted(glob.glob(f"/tmp/{tag}_*_out")):
        p = re.match(rf"/tmp/{tag}_(C\d+)_out", d).group(1)
        if props and p not in props:
            continue
        for m in sorted(os.listdir(d)):
            if os.path.exists(f"{d}/{m}/patch.diff"):
                out.append((p, m))
    return out


def parse(p, log):
    line = next((l for l in log.split("\n") if l.startswith(f"{p} quick:") or l.startswith(f"{p} thorough:")), None)
    r = dict(summary=line, violation=f"VIOLATION property={p}" in log, nofail="no-failing-input-found" in log,
             tests=next((l for l in log.split("\n") if " passed" in l or " failed" in l), "?"),
             demo=[l for l in log.split("\n") if l.startswith("exit ")])
    if line:
        th = re.search(r"theorems (\d+)/(\d+)", line)
        r.update(theorems=(int(th.group(1)), int(th.group(2))), unlisted=int(re.search(r"unlisted (\d+)", line).group(1)),
                 cdiffs=int(re.search(r"C diffs (\d+)", line).group(1)))
    return r


def run(tag, props):
    logs = Path(f"/tmp/{tag}_logs"); logs.mkdir(exist_ok=True)
    def one(pm):
        p, m = pm
        r = subprocess.run([str(V / "harness/seedtest.sh"), p, f"/tmp/{tag}_{p}_out/{m}"], capture_output=True, text=True, cwd=V)
        (logs / f"{p}-{m}.log").write_text(r.stdout + r.stderr)
        return pm
    with ThreadPoolExecutor(3) as ex:
        list(ex.map(one, seeds(tag, props)))
    table(tag, props)


def table(tag, props):
    res = {}
    for p, m in seeds(tag, props):
        f = Path(f"/tmp/{tag}_logs/{p}-{m}.log")
        if not f.exists():
            continue
        r = parse(p, f.read_text()); res[f"{p} {m}"] = r
        verdict = "CAUGHT" if r["violation"] and not r["nofail"] else ("no-failing-input" if r["violation"] else "MISSED")
        demo = ",".join(x.replace("exit ", "") for x in r["demo"])
        print(f"{p} {m}: {verdict:17s} demo[{demo}] {r['tests'][:12]:12s} {r['summary'] or 'NO SUMMARY LINE (crash?)'}")
    Path(f"/tmp/{tag}_summary.json").write_text(json.dumps(res, indent=1))


def archive(tag, label, special):
    special = json.loads(Path(special).read_text()) if special else {}
    nxt = {}
    for d in os.listdir(V / "seeded"):
        p, k = d.split("-m"); nxt[p] = max(nxt.get(p, 0), int(k))
    res = json.loads(Path(f"/tmp/{tag}_summary.json").read_text())
    for key, r in res.items():
        p, m = key.split()
        if key in special:
            txt = f"{label} {special[key]}"
        else:
            if not (r["violation"] and not r["nofail"]):
                sys.exit(f"{key} was not caught with a failing input and has no entry in the special file")
            th = r["theorems"]
            extra = "" if th[0] == th[1] else f"; in addition the regenerated tables no longer satisfy the theorem modules (theorems {th[0]}/{th[1]})"
            txt = f"{label} CAUGHT by {p} quick: VIOLATION with failing inputs ({r['unlisted']} unlisted D failures; C diffs {r['cdiffs']}){extra}"
        nxt[p] = nxt.get(p, 0) + 1
        sid = f"{p}-m{nxt[p]}"
        subprocess.run(["/venv/bin/python", str(V / "harness/seed_archive.py"), sid, f"/tmp/{tag}_{p}_out/{m}", txt], check=True)


def clean(tag):
    for d in glob.glob(f"/tmp/{tag}_C*"):
        if d.endswith("_out"):
            subprocess.run(["rm", "-rf", d])
        else:
            subprocess.run(["git", "-C", "/repo", "worktree", "remove", "--force", d])
    subprocess.run(["git", "-C", "/repo", "worktree", "prune"])
    subprocess.run(["rm", "-rf", f"/tmp/{tag}_logs", f"/tmp/{tag}_summary.json", "/tmp/seed_replays"])


if __name__ == "__main__":
    cmd, tag = sys.argv[1], sys.argv[2]
    if cmd == "run":
        run(tag, sys.argv[3:])
    elif cmd == "table":
        table(tag, sys.argv[3:])
    elif cmd == "archive":
        archive(tag, sys.argv[3], sys.argv[4] if len(sys.argv) > 4 else None)
    elif cmd == "clean":
        clean(tag)
