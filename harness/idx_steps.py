"""Loop-round counting on the REAL readers (C10 support for the idx/text families): the number of times the first body line of
any for/while loop of a function executes = rounds that start, the one that raises included.  Compared with the Lean counting
twins (lean/Drx/IdxSteps.lean) through the `idx steps …` / `text steps …` driver commands."""
import ast, importlib, sys

_TOOL = 4
_LOOPS = {}


def loop_lines(modname, func):
    key = (modname, func)
    if key not in _LOOPS:
        mod = importlib.import_module(modname)
        fn = next(n for n in ast.walk(ast.parse(open(mod.__file__).read())) if isinstance(n, ast.FunctionDef) and n.name == func)
        _LOOPS[key] = (getattr(mod, func).__code__, {l.body[0].lineno for l in ast.walk(fn) if isinstance(l, (ast.For, ast.While))})
    return _LOOPS[key]


def count_rounds(modname, func, call):
    """runs call() and returns the number of loop rounds started inside modname.func (exceptions of call are swallowed)"""
    code, lines = loop_lines(modname, func)
    n = [0]
    mon = sys.monitoring

    def on_line(c, line):
        if c is code and line in lines:
            n[0] += 1

    mon.use_tool_id(_TOOL, "idx_steps")
    try:
        mon.register_callback(_TOOL, mon.events.LINE, on_line)
        mon.set_local_events(_TOOL, code, mon.events.LINE)
        try:
            call()
        except Exception:
            pass
    finally:
        mon.set_local_events(_TOOL, code, 0)
        mon.register_callback(_TOOL, mon.events.LINE, None)
        mon.free_tool_id(_TOOL)
    return n[0]
