"""C09 — score timeline spans reproduce the per-frame table without loss (vwsc.py vwsc_to_score)."""
import math, sys
from core import Case, canon
import score_gen

PROP = "C09"
LEAN_MODULES = ["DrxProps.C09", "DrxProps.C0809"]
FAMILIES = ["score"]
RULE = ("frame tables (lists of frame dicts shaped as parse_vwsc_data returns them: main / palette / one cell per channel) are generated "
        "directly from per-channel stories (sprite appears, changes ONE of the 12 compared attributes, vanishes for one frame, returns "
        "unchanged or changed) and from sound/tempo/script/palette/transition patterns; the real vwsc_to_score runs on them. Stage D: "
        "(1) an independent Python checker evaluates every clause of the property on the real output (cover by exactly one span with "
        "equal attributes, no span over an empty cell, ordered + disjoint, maximal, rectangle, events at exactly the carrying frames, "
        "sounds merged iff consecutive and equal); (2) the output must equal the run-length encoding computed by grouping. Stage C: the "
        "Lean model of vwsc_to_score on the same table. Ragged tables (frames with missing cells) are compared model-vs-implementation only. "
        "A `pipeline` stream feeds vwsc_to_score with the output of the REAL parse_vwsc_file_data on generated score files (C08 spec objects, "
        "random encodings, optional wrapper); expected = run-length view of the fields of the spec's buffers (theorems DrxProps/C0809.lean).")
TRUSTED = ["harness/c09.py clause checker and run-length expectation (Python)", "correspondence is sampled (generator quality bounds it)",
           "math.ceil(h - w/2) is modelled as h - floor(w/2): exact for operands below 2^52 (generated values are 16-bit)"]
ASSUMPTIONS = ["all frames of a decoded table have the same channel count (parse_vwsc_data guarantees it; C08 model)",
               "attribute values are machine-size integers / booleans", "logging ignored"]
HAS_SEARCH_TIER = True

ATTRS = ["castId", "backgroundColor", "foregroundColor", "width", "height", "ink_type", "spriteType", "x", "y", "editable", "moveable", "trails"]
# span key <- cell key
SPAN_OF = dict(castId="castId", backColor="backgroundColor", foreColor="foregroundColor", width="width", height="height", ink="ink_type",
               type="spriteType", locH="x", locV="y", editable="editable", moveable="moveable", trails="trails")


def gen_tables():
    return score_gen.gen_tables()


# ---------------------------------------------------------------------------------------------- text form <-> python frame table

def cell_txt(c):
    if c is None:
        return "_"
    return ",".join(str(int(c[k])) for k in ATTRS)


def main_txt(m):
    if m is None:
        return "-"
    s = f"{m['fps']},{m['sound1_cast']},{m['sound2_cast']},{m['script']}"
    if "transition_id" in m:
        s += f",T{m['transition_id'].encode('latin-1').hex()},{m['transition_chunk_size']},{m['transition_duration']}"
    return s


def table_txt(frames):
    if not frames:
        return "-"
    return ";".join(f"{main_txt(f['main'])}|{'-' if f['palette'] is None else f['palette']}|{'/'.join(cell_txt(c) for c in f['score']) if f['score'] else '-'}"
                    for f in frames)


def table_parse(t):
    """text -> the list of frame dicts handed to the real vwsc_to_score"""
    if t == "-":
        return []
    out = []
    for ft in t.split(";"):
        m, p, cs = ft.split("|")
        if m == "-":
            main = {}
        else:
            x = m.split(",")
            main = dict(fps=int(x[0]), sound1_cast=int(x[1]), sound2_cast=int(x[2]), script=int(x[3]))
            if len(x) == 7:
                main.update(transition_id=bytes.fromhex(x[4][1:]).decode("latin-1"), transition_chunk_size=int(x[5]), transition_duration=int(x[6]))
            else:
                main.update(transition_cast_id=0)
        pal = {} if p == "-" else dict(fps=0, operation="0", palette_id=int(p), cycles=0)
        score = []
        if cs != "-":
            for c in cs.split("/"):
                if c == "_":
                    score.append({})
                else:
                    v = [int(z) for z in c.split(",")]
                    d = dict(zip(ATTRS, v))
                    d["editable"] = bool(d["editable"]); d["moveable"] = bool(d["moveable"])
                    d["flags"] = 0
                    score.append(d)
        out.append(dict(main=main, palette=pal, score=score))
    return out


# ---------------------------------------------------------------------------------------------- spec side

def fdiv2ceil(h, w):
    """ceil(h - w/2) in exact integer arithmetic"""
    return h - (w // 2)


def rle_expected(frames):
    """the run-length view the property describes, computed by grouping (None when the table is ragged)"""
    n = len(frames)
    nch = len(frames[0]["score"]) if n else 0
    if any(len(f["score"]) < nch for f in frames):
        return None
    data = dict(lastChannel=nch, lastFrame=n, transition=[], palette=[], sound1=[], sound2=[], tempo=[], script=[], sprite=[[] for _ in range(nch)])
    for j in range(nch):
        i = 0
        while i < n:
            c = frames[i]["score"][j]
            if c is None:
                i += 1; continue
            k = i
            key = tuple(c[a] for a in ATTRS)
            while k + 1 < n and frames[k + 1]["score"][j] is not None and tuple(frames[k + 1]["score"][j][a] for a in ATTRS) == key:
                k += 1
            sp = {sk: c[ck] for sk, ck in SPAN_OF.items()}
            sp.update(startFrame=i + 1, endFrame=k + 1, locZ=j + 1)
            sp["left"] = fdiv2ceil(c["x"], c["width"]); sp["top"] = fdiv2ceil(c["y"], c["height"])
            sp["right"] = sp["left"] + c["width"]; sp["bottom"] = sp["top"] + c["height"]
            data["sprite"][j].append(sp)
            i = k + 1
    for key, skey in (("sound1_cast", "sound1"), ("sound2_cast", "sound2")):
        i = 0
        while i < n:
            m = frames[i]["main"]
            if m is None or m[key] <= 0:
                i += 1; continue
            k = i
            while k + 1 < n and frames[k + 1]["main"] is not None and frames[k + 1]["main"][key] == m[key]:
                k += 1
            data[skey].append(dict(startFrame=i + 1, endFrame=k + 1, castId=m[key]))
            i = k + 1
    for i, f in enumerate(frames):
        m = f["main"]
        if m is not None:
            if m.get("transition_id", "") != "":
                data["transition"].append(dict(frame=i + 1, transition_id=m["transition_id"], transition_chunk_size=m["transition_chunk_size"],
                                               transition_duration=m["transition_duration"]))
            if m["script"] > 0:
                data["script"].append(dict(frame=i + 1, castId=m["script"]))
            if m["fps"] > 0:
                data["tempo"].append(dict(frame=i + 1, fps=m["fps"]))
        if f["palette"] is not None:
            data["palette"].append(dict(frame=i + 1, palette_id=f["palette"]))
    return data


def check_clauses(frames, data):
    """the property, clause by clause, on the REAL output `data` (returns a failure text or None)"""
    n = len(frames)
    nch = len(frames[0]["score"]) if n else 0
    if data.get("lastFrame") != n or data.get("lastChannel") != nch or len(data.get("sprite", [])) != nch:
        return "lastFrame/lastChannel/number of sprite channels wrong"
    for j in range(nch):
        spans = data["sprite"][j]
        for a, b in zip(spans, spans[1:]):
            if not (a["endFrame"] < b["startFrame"]):
                return f"channel {j}: spans not ordered/disjoint: {a['startFrame']}-{a['endFrame']} then {b['startFrame']}-{b['endFrame']}"
            if a["endFrame"] + 1 == b["startFrame"] and all(a[k] == b[k] for k in SPAN_OF):
                return f"channel {j}: adjacent spans with equal attributes are not merged (not maximal) at frame {b['startFrame']}"
        for s in spans:
            if not (1 <= s["startFrame"] <= s["endFrame"] <= n):
                return f"channel {j}: span outside the table"
            for fr in range(s["startFrame"], s["endFrame"] + 1):
                if frames[fr - 1]["score"][j] is None:
                    return f"channel {j}: span {s['startFrame']}-{s['endFrame']} covers the empty cell of frame {fr}"
            if s["right"] - s["left"] != s["width"] or s["bottom"] - s["top"] != s["height"]:
                return f"channel {j}: rectangle size differs from width/height"
            if s["left"] != math.ceil(s["locH"] - s["width"] / 2) or s["top"] != math.ceil(s["locV"] - s["height"] / 2):
                return f"channel {j}: rectangle not centred on locH/locV"
            if s["locZ"] != j + 1:
                return f"channel {j}: locZ wrong"
        for i in range(n):
            c = frames[i]["score"][j]
            cov = [s for s in spans if s["startFrame"] <= i + 1 <= s["endFrame"]]
            if c is None:
                if cov:
                    return f"channel {j}: empty cell of frame {i + 1} is covered"
            else:
                if len(cov) != 1:
                    return f"channel {j}: sprite cell of frame {i + 1} is covered by {len(cov)} spans"
                bad = [sk for sk, ck in SPAN_OF.items() if cov[0][sk] != c[ck] or type(cov[0][sk]) != type(c[ck])]
                if bad:
                    return f"channel {j}: the span covering frame {i + 1} differs from the cell in {bad}"
    # events
    exp = rle_expected(frames)
    for k in ("tempo", "script", "palette", "transition"):
        if data.get(k) != exp[k]:
            return f"{k} events are not exactly at the carrying frames"
    for k in ("sound1", "sound2"):
        if data.get(k) != exp[k]:
            return f"{k} spans: consecutive identical sounds not merged exactly"
    return None


# ---------------------------------------------------------------------------------------------- generators

def attr_val(rng, a):
    if a in ("editable", "moveable"):
        return rng.random() < 0.5
    if a == "castId":
        return rng.choice([1, 1, 2, 3, 7, 32767, rng.randrange(1, 300)])
    if a in ("width", "height"):
        return rng.choice([0, 1, 2, 3, 10, 11, 640, -1, -3, -4, 32767, -32768, rng.randrange(-40, 700)])
    if a in ("x", "y"):
        return rng.choice([0, 1, -1, 100, 101, 32767, -32768, rng.randrange(-500, 1000)])
    if a == "trails":
        return rng.choice([0, 1])
    if a == "ink_type":
        return rng.choice([0, 8, 36, 63, rng.randrange(64)])
    if a == "spriteType":
        return rng.choice([0, 1, 16, rng.randrange(17)])
    return rng.choice([0, 255, rng.randrange(256)])


def rand_sprite(rng):
    return {a: attr_val(rng, a) for a in ATTRS}


def change_one(rng, c, which=None):
    d = dict(c)
    a = which or rng.choice(ATTRS)
    for _ in range(20):
        v = attr_val(rng, a)
        if v != c[a]:
            d[a] = v
            return d, a
    d[a] = (not c[a]) if isinstance(c[a], bool) else c[a] + 1
    return d, a


def channel_story(rng, n):
    """cells of one channel over n frames + the list of phases used"""
    cells, phases = [], []
    cur = None
    last = None
    while len(cells) < n:
        r = rng.random()
        k = rng.choice([1, 1, 2, 3, 5])
        if cur is None:
            if r < 0.3:
                cells += [None] * k; phases.append("absent")
            elif r < 0.65 and last is not None:
                cur = dict(last); cells += [cur] * k; phases.append("return-same")
            elif r < 0.8 and last is not None:
                cur, a = change_one(rng, last); cells += [cur] * k; phases.append("return-changed:" + a)
            else:
                cur = rand_sprite(rng); cells += [cur] * k; phases.append("appear")
        else:
            if r < 0.45:
                cur, a = change_one(rng, cur); cells += [cur] * k; phases.append("change:" + a)
            elif r < 0.7:
                last = cur; cur = None; cells += [None]; phases.append("vanish-one")
            elif r < 0.8:
                last = cur; cur = None; cells += [None] * k; phases.append("vanish")
            elif r < 0.9:
                cells += [dict(cur)] * k; phases.append("stay")
            else:
                cur = rand_sprite(rng); cells += [cur] * k; phases.append("replace")
    return cells[:n], phases


def main_story(rng, n, style):
    """sound / tempo / script / transition patterns over n frames"""
    out = []
    s1 = s2 = 0
    for i in range(n):
        r = rng.random()
        if r < 0.25:
            s1 = rng.choice([0, 0, 5, 5, 6, -1, 32767])
        if rng.random() < 0.2:
            s2 = rng.choice([0, 9, 9, 10, -3])
        if rng.random() < 0.15:
            out.append(None)                                      # empty main dict: interrupts a sound run
            continue
        m = dict(fps=rng.choice([0, 0, 0, 12, 30, -1, 255]), sound1_cast=s1, sound2_cast=s2, script=rng.choice([0, 0, 0, 96, 97, -5]))
        if style == "d4":
            m.update(transition_id=rng.choice(["0", "0", "wipe right", "", "23", "dissolve, bits"]), transition_chunk_size=rng.randrange(0, 256),
                     transition_duration=rng.randrange(0, 128))
        out.append(m)
    return out


def table_case(rng, kind="table", n=None, nch=None):
    n = n if n is not None else rng.choice([0, 1, 2, 3, 4, 6, 10, rng.randrange(1, 40)])
    nch = nch if nch is not None else rng.choice([0, 1, 2, 3, 5, 8, 48])
    style = rng.choice(["d4", "d5"])
    chans, phases = [], set()
    for _ in range(nch):
        cells, ph = channel_story(rng, n)
        chans.append(cells); phases.update(p.split(":")[0] for p in ph)
    mains = main_story(rng, n, style)
    frames = []
    for i in range(n):
        frames.append(dict(main=mains[i], palette=rng.choice([None, None, None, -1, -101, 5, 0]), score=[chans[j][i] for j in range(nch)]))
    t = table_txt(frames)
    exp = rle_expected(frames)
    return Case(kind=kind, spec=dict(nframes=n, nchannels=nch, style=style, phases=sorted(phases), table=t if len(t) < 6000 else t[:6000] + "..."),
                lines=[f"score toscore {t}"], expect=[canon(exp)])


def one_attr_cases(rng):
    """for each of the 12 compared attributes: a sprite that changes ONLY that attribute between two adjacent frames, then vanishes
    for one frame and returns unchanged"""
    out = []
    for a in ATTRS:
        for _ in range(3):
            c0 = rand_sprite(rng)
            c1, _ = change_one(rng, c0, which=a)
            col = [c0, c0, c1, c1, None, c1, c1, None, None, c0]
            frames = [dict(main=None, palette=None, score=[c, None, c0]) for c in col]
            t = table_txt(frames)
            out.append(Case(kind="one-attribute", spec=dict(attr=a, table=t), lines=[f"score toscore {t}"], expect=[canon(rle_expected(frames))]))
    return out


def value_pair_cases(rng):
    """for every compared attribute: EVERY ordered pair (u, v), u != v, of a small alphabet of values that some notion of equality
    other than `==` on the values would confuse (-1 / -2: equal CPython hashes; 0 / False, 1 / True; 255 / -1 and 256 / 0: equal
    low bytes; 32767 / -32768 / 65535: 16-bit wraps), as the only difference between two adjacent frames u u v v u (seeded change
    C09-m7 compared hashes of the attribute tuples)"""
    out = []
    ints = [-2, -1, 0, 1, 2, 255, 256, 257, -255, -256, 32767, -32768, 65535, 65536]
    lines, expect = [], []
    for a in ATTRS:
        vals = [False, True] if a in ("editable", "moveable") else ints
        base = rand_sprite(rng)
        for u in vals:
            for v in vals:
                if u == v:
                    continue
                cu, cv = dict(base), dict(base)
                cu[a], cv[a] = u, v
                frames = [dict(main=None, palette=None, score=[c, base]) for c in (cu, cu, cv, cv, cu)]
                lines.append(f"score toscore {table_txt(frames)}"); expect.append(canon(rle_expected(frames)))
        out.append(Case(kind="value-pairs", spec=dict(attr=a, nvalues=len(vals)), lines=lines, expect=expect))
        lines, expect = [], []
    return out


def scale_cases(rng, tier):
    """beyond the small bounds: scores of 300 / 1 000 frames (frame numbers beyond 256 and 2^8 boundaries of any counter) with a
    sprite that stays constant all the way, one that changes late, sounds and tempo that run across frame 256 / 257 / 258"""
    out = []
    for n in (300, 1000) if tier == "quick" else (258, 300, 1000, 5000):
        a, b = rand_sprite(rng), rand_sprite(rng)
        b2, _ = change_one(rng, b)
        frames = []
        for i in range(n):
            main = dict(fps=(15 if i in (0, 255, 256, 257, n - 1) else 0), sound1_cast=(7 if 250 <= i < 262 else 0), sound2_cast=(9 if i >= 256 else 0), script=(3 if i == 257 else 0))
            frames.append(dict(main=main, palette=None, score=[a, (b if i < n - 20 else b2), (None if i % 256 else a)]))
        t = table_txt(frames)
        out.append(Case(kind="scale-frames", spec=dict(nframes=n), lines=[f"score toscore {t}"], expect=[canon(rle_expected(frames))]))
    return out


def pattern_cases(nch, nfr, alphabet, rng):
    """every table of nch channels x nfr frames over a small cell alphabet: _ (empty), A, B (= A with one attribute changed), C (another cast)"""
    A = rand_sprite(rng)
    out = []
    B, _ = change_one(rng, A)
    Cc, _ = change_one(rng, A, which="castId")
    cellsA = {"_": None, "A": A, "B": B, "C": Cc}
    import itertools
    lines, expect = [], []
    for pat in itertools.product(alphabet, repeat=nch * nfr):
        # B varies the changed attribute with the pattern index so that all 12 attributes are visited
        frames = [dict(main=None, palette=None, score=[cellsA[pat[i * nch + j]] for j in range(nch)]) for i in range(nfr)]
        lines.append(f"score toscore {table_txt(frames)}"); expect.append(canon(rle_expected(frames)))
        if len(lines) == 512:
            out.append(Case(kind="patterns-exhaustive", spec=dict(nch=nch, nfr=nfr, alphabet=alphabet, first=lines[0][:200]), lines=lines, expect=expect))
            lines, expect = [], []
    if lines:
        out.append(Case(kind="patterns-exhaustive", spec=dict(nch=nch, nfr=nfr, alphabet=alphabet, first=lines[0][:200]), lines=lines, expect=expect))
    return out


def sound_cases(rng, n):
    """sound patterns: runs, one-frame gaps (cast 0 / negative cast / empty main), changes"""
    out = []
    for _ in range(n):
        k = rng.randrange(1, 14)
        alphabet = [0, 5, 5, 6, -2, None]
        frames = []
        for i in range(k):
            a, b = rng.choice(alphabet), rng.choice(alphabet)
            if a is None or b is None:
                frames.append(dict(main=None, palette=None, score=[]))
            else:
                frames.append(dict(main=dict(fps=0, sound1_cast=a, sound2_cast=b, script=0), palette=None, score=[]))
        t = table_txt(frames)
        out.append(Case(kind="sounds", spec=dict(table=t), lines=[f"score toscore {t}"], expect=[canon(rle_expected(frames))]))
    return out


def ragged_cases(rng, n):
    out = []
    for _ in range(n):
        c = table_case(rng, n=rng.randrange(1, 6), nch=rng.randrange(1, 4))
        frames = c.spec["table"].split(";")
        i = rng.randrange(len(frames))
        m, p, cs = frames[i].split("|")
        cells = cs.split("/")
        if rng.random() < 0.6:
            cells = cells[:rng.randrange(0, len(cells))]          # missing cells
        else:
            cells = cells + ["_", cell_txt(rand_sprite(rng))]     # extra cells (ignored unless it is frame 0)
        frames[i] = f"{m}|{p}|{'/'.join(cells) if cells else '-'}"
        t = ";".join(frames)
        out.append(Case(kind="ragged", spec=dict(table=t), lines=[f"score toscore {t}"], expect=[None]))
    return out


def _table_of_decoded(fr):
    """expected decoded frames (harness/c08.py read_frame) -> this module's table form"""
    out = []
    for f in fr:
        out.append(dict(main=(f["main"] or None), palette=(f["palette"]["palette_id"] if f["palette"] else None),
                        score=[(c if c else None) for c in f["score"]]))
    return out


def pipeline_case(rng):
    """bytes -> frames -> timeline through the REAL parse_vwsc_file_data and vwsc_to_score: a generated score file (C08 spec object:
    layout, channels, buffer sequence with sprites appearing / changing one field / vanishing / returning, a random encoding with
    `same` records, overlapping and redundant ranges, optional wrapper); expected = run-length view of the fields of the buffers"""
    import c08
    lay = rng.choice(["d4", "d5"])
    cc = rng.choice([3, 4, 5, 8, rng.randrange(3, 20)])
    n = cc * c08.FS[lay]
    nf = rng.choice([1, 2, 3, 5, 8, rng.randrange(1, 25)])
    bufs, cur = [], c08.rand_buffer(rng, lay, cc)
    for _ in range(nf):
        bufs.append(cur)
        r = rng.random()
        if r < 0.45:
            pass                                                   # unchanged frame: spans and sounds must extend
        elif r < 0.6 and cc > 2:
            b = bytearray(cur); c = rng.randrange(2, cc); b[c * c08.FS[lay]:(c + 1) * c08.FS[lay]] = bytes(c08.FS[lay]); cur = bytes(b)
        else:
            cur = c08.mutate_buffer(rng, lay, cc, cur)
    recs = c08.encode_frames(rng, n, bufs, rng.choice(["min", "random", "mixed", "bytes", "full"]))
    if rng.random() < 0.15:
        recs = ["S"] + recs; bufs = [bytes(n)] + bufs
    spec = dict(lay=lay, cc=cc, fc=len(recs), u1=0, u2=0)
    w = c08.fix_wrapper(c08.rand_wrapper(rng))
    data = c08.file_bytes(spec, recs, w)
    frames = _table_of_decoded([c08.read_frame(lay, b) for b in bufs])
    t = table_txt(frames)
    spec.update(nframes=len(bufs), wrapped=w is not None, table=t if len(t) < 20000 else None)
    return Case(kind="pipeline", spec=spec, lines=[f"score pipeline {c08.hx(data)}"], expect=[canon(rle_expected(frames))])


def cases(rng, tier):
    n_tab, n_snd, n_rag = dict(quick=(2500, 400, 200), thorough=(50000, 4000, 2000), search=(20000, 2000, 0))[tier]
    out = one_attr_cases(rng)
    out += value_pair_cases(rng)
    out += scale_cases(rng, tier)
    out += pattern_cases(1, 6, "_AB", rng)                         # 729 columns
    out += pattern_cases(2, 2, "_ABC", rng)                        # 256 tables
    if tier != "quick":
        out += pattern_cases(2, 4, "_ABC", rng)                    # all 65 536 2-channel x 4-frame tables
    out += sound_cases(rng, n_snd)
    out += [table_case(rng) for _ in range(n_tab)]
    out += ragged_cases(rng, n_rag)
    out += [pipeline_case(rng) for _ in range(dict(quick=500, thorough=8000, search=3000)[tier])]
    return out


# ---------------------------------------------------------------------------------------------- real code

def to_py(frames):
    """harness frame table (None = empty dict) -> what vwsc_to_score receives"""
    return frames


def run_real(t):
    from drxtract.vwsc.vwsc import vwsc_to_score
    return vwsc_to_score(table_parse(t))


def impl(case):
    out = []
    for line in case["lines"]:
        t = line.split()
        if t[1] == "pipeline":
            try:
                from drxtract.vwsc.vwsc import parse_vwsc_file_data, vwsc_to_score
                out.append(canon(vwsc_to_score(parse_vwsc_file_data(bytes.fromhex(t[2])))))
            except Exception:
                out.append(canon("error"))
        elif t[1] == "toscore":
            try:
                out.append(canon(run_real(t[2])))
            except Exception:
                out.append(canon("error"))
        else:
            out.append("bad-op")
    return out


def _frames_of_text(t):
    """text -> harness table (None for empty dicts), for the clause checker"""
    fr = []
    for f in table_parse(t):
        m = f["main"] or None
        fr.append(dict(main=m, palette=(f["palette"]["palette_id"] if f["palette"] else None),
                       score=[(c if c else None) for c in f["score"]]))
    return fr


def oracle(case, io):
    if case["kind"] == "ragged":
        return None
    import json
    if case["kind"] == "pipeline":
        if io[0] == '"error"':
            return "the real pipeline raised on a valid score file"
        if case["spec"].get("table"):
            return check_clauses(_frames_of_text(case["spec"]["table"]), json.loads(io[0]))
        return None
    for line, o in zip(case["lines"], io):
        if o == '"error"':
            return "vwsc_to_score raised on a rectangular frame table"
        msg = check_clauses(_frames_of_text(line.split()[2]), json.loads(o))
        if msg:
            return msg
    return None


def nontrivial(case, io):
    return case["kind"] != "ragged" and any('"startFrame"' in x for x in io)


MATCHERS = {}

if __name__ == "__main__":
    import core
    sys.exit(core.main("c09"))
