CLAIMED["C01"] = dict(
    technique="Lean 4 theorems (walk/encode round trip, offset lookup, FourCC totality by decide over all bytes, map round trips, locator minimality) about a hand-written model of riff.py/riff_chunk.py/imap.py/mmap.py, tied by a sampled model-vs-implementation correspondence and a property search on the real code",
    text="Unbounded theorems about the Lean model of the chunk walk, offset lookup, FourCC sanitiser, imap/mmap readers and the projector locator; the model is compared with the real functions on generated movies every run and the property is evaluated on the implementation's own output.",
    note="Trusted: Lean kernel + propext/Classical.choice/Quot.sound; the hand model of CPython slicing/struct; the sampled correspondence; the Python encoder used to generate movies.",
    ref="DESIGN.md section 8 C01")
