CLAIMED["C18"] = dict(
    technique="Lean 4 theorems about a model of riffxtract.main's write plan (names safe for every FourCC, names injective in the index, plan exact for every well-formed movie, purity) + in-process runs of the real main() under an audit hook compared with the model and with the spec movie",
    text="Unbounded theorems about the plan (which files, which names, which bytes); OS effects (path join, open('wb')) are observed, not proved: every open-for-write/mkdir/rename during the real main() is recorded and must lie inside <out>/bin, the rest of the tree is hashed before/after, the tool is run twice.",
    note="Trusted: Lean kernel + propext/Classical.choice/Quot.sound; hand model of main(); sampled correspondence; the audit-hook observation of filesystem effects; module reloaded per run to emulate a fresh process.",
    ref="DESIGN.md section 8 C18")
