"""One-off writer of lean/DrxProofs/VwscFields.lean (C08 fields_roundtrip). The six readers are proved by the same
recipe, one small lemma per field (large single proofs overflow the kernel's recursion limit), so the text is produced
from the cell list of each spec encoder in lean/Drx/VwscSpec.lean. The output is an ordinary source file."""

# reader -> (raw structure, encoder, view, Lean reader fn, gen prefix, cells)
# cell = (kind, spec field, python-name-in-Gen or None)   kind: s (signed 16, validity In16), b (byte), u (unsigned 16), P (pad bytes)
R = {
 "d4Main": ("RawMainD4", "encMainD4", "viewMainD4", "d4ReadMain", [
    ("s", "flags", "flags"), ("b", "transDuration", "transition_duration"), ("b", "transChunk", "transition_chunk_size"), ("b", "fps", "fps"),
    ("b", "transition", "transition_id"), ("s", "sound1", "sound1_cast"), ("s", "sound2", "sound2_cast"), ("s", "soundFlags", "sound_flags"),
    ("s", "unknown1", "unknown1"), ("s", "unknown2", "unknown2"), ("s", "script", "script"), ("s", "unknown3", "unknown3")]),
 "d4Palette": ("RawPalD4", "encPalD4", "viewPalD4", "d4ReadPalette", [
    ("s", "paletteId", "palette_id"), ("s", "unknown2", "unknown2"), ("b", "opcode", "operation_code"), ("b", "fps", "fps"),
    ("s", "unknown4", "unknown4"), ("s", "cycles", "cycles"), ("s", "unknown6", "unknown6"), ("s", "unknown7", "unknown7"),
    ("s", "unknown8", "unknown8"), ("s", "unknown9", "unknown9"), ("b", "pad0", None), ("b", "pad1", None)]),
 "d4Sprite": ("RawSpriteD4", "encSpriteD4", "viewSpriteD4", "d4ReadSprite", [
    ("s", "spriteType", "spriteType"), ("b", "fg", "foregroundColor"), ("b", "bg", "backgroundColor"), ("b", "flags", "flags"),
    ("b", "ink", "ink_byte"), ("s", "castId", "castId"), ("s", "y", "y"), ("s", "x", "x"), ("s", "height", "height"), ("s", "width", "width"),
    ("u", "flag1", "flag1"), ("u", "flag2", "flag2")]),
 "d5Main": ("RawMainD5", "encMainD5", "viewMainD5", "d5ReadMain", [
    ("s", "unknown01", "unknown01"), ("s", "script", "script"), ("s", "unknown03", "unknown03"), ("s", "sound1", "sound1_cast"),
    ("s", "unknown05", "unknown05"), ("s", "sound2", "sound2_cast"), ("s", "unknown07", "unknown07"), ("s", "transCast", "transition_cast_id"),
    ("s", "unknown08", "unknown08"), ("s", "unknown09", "unknown09"), ("s", "fps", "fps"), ("s", "unknown10", "unknown10")]),
 "d5Palette": ("RawPalD5", "encPalD5", "viewPalD5", "d5ReadPalette", [
    ("s", "unknown01", "unknown01"), ("s", "paletteId", "palette_id"), ("b", "fps", "fps"), ("b", "opcode", "operation_code"),
    ("s", "unknown02", "unknown02"), ("s", "unknown03", "unknown03"), ("s", "cycles", "cycles"), ("P", "pad", None)]),
 "d5Sprite": ("RawSpriteD5", "encSpriteD5", "viewSpriteD5", "d5ReadSprite", [
    ("b", "unknown01", "unknown01"), ("b", "ink", "ink_byte"), ("s", "spriteType", "spriteType"), ("s", "castId", "castId"),
    ("s", "unknown02", "unknown02"), ("s", "unknown03", "unknown03"), ("b", "fg", "foregroundColor"), ("b", "bg", "backgroundColor"),
    ("s", "y", "y"), ("s", "x", "x"), ("s", "height", "height"), ("s", "width", "width"), ("u", "flag2", "flag2"), ("u", "flag1", "flag1")]),
}
# fields each reader binds with `.int` / `.raw` after checkAll (in source order), and whether `.raw` is used
USED = {
 "d4Main": [("transition_duration", "int"), ("transition_chunk_size", "int"), ("fps", "int"), ("transition_id", "raw"), ("sound1_cast", "int"),
            ("sound2_cast", "int"), ("script", "int")],
 "d4Palette": [("palette_id", "int"), ("operation_code", "int"), ("fps", "int"), ("cycles", "int")],
 "d4Sprite": [("spriteType", "int"), ("foregroundColor", "int"), ("backgroundColor", "int"), ("flags", "int"), ("ink_byte", "int"), ("castId", "int"),
              ("y", "int"), ("x", "int"), ("height", "int"), ("width", "int"), ("flag2", "int")],
 "d5Main": [("script", "int"), ("sound1_cast", "int"), ("sound2_cast", "int"), ("transition_cast_id", "int"), ("fps", "int")],
 "d5Palette": [("palette_id", "int"), ("fps", "int"), ("operation_code", "int"), ("cycles", "int")],
 "d5Sprite": [("ink_byte", "int"), ("spriteType", "int"), ("castId", "int"), ("foregroundColor", "int"), ("backgroundColor", "int"), ("y", "int"),
              ("x", "int"), ("height", "int"), ("width", "int"), ("flag2", "int")],
}


def cell_enc(kind, fld, v="s"):
    if kind == "s": return f"encS .be 2 {v}.{fld}"
    if kind == "u": return f"encU16 {v}.{fld}"
    if kind == "b": return f"[{v}.{fld}]"
    if kind == "P": return f"{v}.{fld}"


def cell_val(kind, fld, v="s"):
    if kind == "s": return f"{v}.{fld}"
    if kind == "u": return f"toSigned 16 {v}.{fld}"
    if kind == "b": return f"b2i {v}.{fld}"


def cat(parts):
    return " ++ ".join(parts) if parts else "[]"


def main():
    o = []
    o.append('''/-
  C08 fields_roundtrip: each of the six channel readers, run on the byte layout of a raw record (Drx.Vwsc.Spec.enc*),
  reports exactly the record's view; one small lemma per field read (the generated offsets `Drx.Gen.Score.*` against the
  position of the field in the spec encoder), then the reader.  Text produced by harness/tools/gen_vwsc_fields_proof.py.
-/
import Drx.Vwsc
import Drx.VwscSpec
import DrxProofs.Py
import DrxProofs.Vwsc
set_option linter.unusedVariables false
namespace Drx.Vwsc
open Drx Drx.Vwsc.Spec Drx.VwscLayout

@[simp] theorem encU16_length (n : Nat) : (encU16 n).length = 2 := by simp [encU16]

theorem toSigned16_mod (n : Nat) (h : n < 65536) : toSigned 16 n % 65536 = (n : Int) := by
  unfold toSigned
  split <;> omega

/-- a signed 16-bit field laid out after `a` is read back by a generated field descriptor with that offset -/
theorem raw_s16_at (p : Post) (a c : Bytes) (v : Int) (h : In16 v) (off : Nat) (hoff : off = a.length) :
    (⟨off, .s16, p⟩ : Fld).raw (a ++ (encS .be 2 v ++ c)) = .ok v := by
  simp only [Fld.raw]; exact getS2_at a c v h off hoff

theorem raw_u16_at (p : Post) (a c : Bytes) (n : Nat) (h : n < 65536) (off : Nat) (hoff : off = a.length) :
    (⟨off, .s16, p⟩ : Fld).raw (a ++ (encU16 n ++ c)) = .ok (toSigned 16 n) := by
  simp only [Fld.raw, getS]
  rw [slice_mid a _ c off (off + 2) hoff (by simp [hoff])]
  simp [unpackS, encU16, ordNat_encOrd_of_lt .be 2 n (by omega)]

theorem raw_u8_at (p : Post) (a c : Bytes) (b : UInt8) (off : Nat) (hoff : off = a.length) :
    (⟨off, .u8, p⟩ : Fld).raw (a ++ (b :: c)) = .ok (b2i b) := by
  subst hoff; simp [Fld.raw, byteAt, b2i, Except.map]

theorem int_of_raw (f : Fld) (d : Bytes) (h : f.post = .raw) : f.int d = f.raw d := by
  unfold Fld.int; rw [h]
''')
    for rd, (raw, enc, view, fn, cells) in R.items():
        o.append(f"/-! ### {fn} -/\n")
        valid_idx = {}
        k = 0
        for kind, fld, _ in cells:
            if kind in ("s", "u"):
                valid_idx[fld] = k; k += 1
        nvalid = k + (1 if rd == "d5Palette" else 0)
        def valid_proj(fld):
            i = valid_idx[fld]
            # h : A ∧ B ∧ ... (right nested)
            p = "h" + ".2" * i
            return p + (".1" if i < nvalid - 1 else "")
        # note: RawSpriteD4.Valid etc. list the s-fields first and then the u-fields in declaration order -> recompute by the Valid defs
        order = VALID_ORDER[rd]
        nvalid = len(order)
        def valid_proj(fld):
            i = order.index(fld)
            return "h" + ".2" * i + (".1" if i < nvalid - 1 else "")
        o.append(f"theorem {enc}_length (s : {raw}) (h : s.Valid) : ({enc} s).length = {24 if rd.startswith('d5') else 20} := by\n"
                 f"  simp [{enc}" + (", h.2.2.2.2.2" if rd == "d5Palette" else "") + "]\n")
        for i, (kind, fld, py) in enumerate(cells):
            if py is None:
                continue
            pre = cat([cell_enc(k2, f2) for k2, f2, _ in cells[:i]])
            post = cat([cell_enc(k2, f2) for k2, f2, _ in cells[i + 1:]])
            g = f"Gen.Score.{rd}_{py}"
            if kind == "b":
                shape = f"({pre}) ++ (s.{fld} :: ({post}))"
                lem = f"raw_u8_at _ _ _ _ _ (by simp)"
            elif kind == "s":
                shape = f"({pre}) ++ (encS .be 2 s.{fld} ++ ({post}))"
                lem = f"raw_s16_at _ _ _ _ ({valid_proj(fld)}) _ (by simp)"
            else:
                shape = f"({pre}) ++ (encU16 s.{fld} ++ ({post}))"
                lem = f"raw_u16_at _ _ _ _ ({valid_proj(fld)}) _ (by simp)"
            o.append(f"theorem {rd}_r_{py} (s : {raw}) (h : s.Valid) : {g}.raw ({enc} s) = .ok ({cell_val(kind, fld)}) := by\n"
                     f"  have e : {enc} s = {shape} := by simp [{enc}, List.append_assoc]\n"
                     f"  rw [e]; exact {lem}\n")
        # checkAll, abstractly (the kernel chokes on the same rewrite done over the concrete encoder term)
        named = [(kind, fld, py) for kind, fld, py in cells if py is not None]
        hyps = " ".join(f"(f_{py} : Gen.Score.{rd}_{py}.raw d = .ok v_{py})" for _, _, py in named)
        vs = " ".join(f"v_{py}" for _, _, py in named)
        o.append(f"theorem {rd}_check_of (d : Bytes) ({vs} : Int) {hyps} :\n    checkAll Gen.Score.{rd} d = .ok () := by\n"
                 f"  simp only [Gen.Score.{rd}, checkAll, " + ", ".join(f"f_{py}" for _, _, py in named) + ", bind, Except.bind]\n")
        o.append(f"theorem {rd}_check (s : {raw}) (h : s.Valid) : checkAll Gen.Score.{rd} ({enc} s) = .ok () :=\n"
                 f"  {rd}_check_of _ " + " ".join("_" for _ in named) + " " + " ".join(f"({rd}_r_{py} s h)" for _, _, py in named) + "\n")
        used = USED[rd]
        uh = " ".join(f"(f_{py} : Gen.Score.{rd}_{py}.raw d = .ok v_{py})" for py, _ in used)
        uv = " ".join(f"v_{py}" for py, _ in used)
        rw = []
        for py, how in used:
            if how == "int":
                rw.append(f"int_of_raw _ _ (rfl : Gen.Score.{rd}_{py}.post = .raw), f_{py}")
            else:
                rw.append(f"f_{py}")
        o.append(f"theorem {fn}_of (d : Bytes) ({uv} : Int) (hc : checkAll Gen.Score.{rd} d = .ok ()) {uh} :\n"
                 f"    {fn} d = .ok ({RESULT[rd]}) := by\n"
                 f"  simp only [{fn}, hc, " + ", ".join(rw) + ", bind, Except.bind, pure, Except.pure]\n"
                 f"  split <;> rfl\n")
        extra = ""
        if rd.endswith("Sprite"):
            extra = f", toSigned16_mod s.flag2 ({valid_proj('flag2')})"
        o.append(f"theorem {fn}_enc (s : {raw}) (h : s.Valid) : {fn} ({enc} s) = .ok ({view} s) := by\n"
                 f"  rw [{fn}_of _ " + " ".join("_" for _ in used) + f" ({rd}_check s h) " + " ".join(f"({rd}_r_{py} s h)" for py, _ in used) + "]\n"
                 f"  simp only [{view}{extra}]\n")
    o.append("end Drx.Vwsc\n")
    return "\n".join(o)


RESULT = {
 "d4Main": "if v_fps ≠ 0 ∨ v_sound1_cast ≠ 0 ∨ v_sound2_cast ≠ 0 ∨ v_script ≠ 0 then some ⟨v_fps, v_sound1_cast, v_sound2_cast, v_script, .d4 (transitionName v_transition_id) v_transition_chunk_size (v_transition_duration % 128)⟩ else none",
 "d4Palette": "if v_palette_id ≠ 0 then some ⟨v_fps, operationName v_operation_code, v_palette_id, v_cycles⟩ else none",
 "d4Sprite": "if v_castId > 0 then some ⟨v_spriteType, v_castId, v_foregroundColor, v_backgroundColor, v_ink_byte % 64, some v_flags, v_y, v_x, v_height, v_width, v_ink_byte / 64 % 2, v_flag2 % 65536 / 32768 % 2 ≠ 0, v_flag2 % 65536 / 16384 % 2 ≠ 0⟩ else none",
 "d5Main": "if v_fps ≠ 0 ∨ v_sound1_cast ≠ 0 ∨ v_sound2_cast ≠ 0 ∨ v_script ≠ 0 then some ⟨v_fps, v_sound1_cast, v_sound2_cast, v_script, .d5 v_transition_cast_id⟩ else none",
 "d5Palette": "if v_palette_id ≠ 0 then some ⟨v_fps, operationName v_operation_code, v_palette_id, v_cycles⟩ else none",
 "d5Sprite": "if v_castId > 0 then some ⟨v_spriteType, v_castId, v_foregroundColor, v_backgroundColor, v_ink_byte % 64, none, v_y, v_x, v_height, v_width, v_ink_byte / 64 % 2, v_flag2 % 65536 / 32768 % 2 ≠ 0, v_flag2 % 65536 / 16384 % 2 ≠ 0⟩ else none",
}

VALID_ORDER = {
    "d4Main": ["flags", "sound1", "sound2", "soundFlags", "unknown1", "unknown2", "script", "unknown3"],
    "d4Palette": ["paletteId", "unknown2", "unknown4", "cycles", "unknown6", "unknown7", "unknown8", "unknown9"],
    "d4Sprite": ["spriteType", "castId", "y", "x", "height", "width", "flag1", "flag2"],
    "d5Main": ["unknown01", "script", "unknown03", "sound1", "unknown05", "sound2", "unknown07", "transCast", "unknown08", "unknown09", "fps", "unknown10"],
    "d5Palette": ["unknown01", "paletteId", "unknown02", "unknown03", "cycles", "__padlen"],
    "d5Sprite": ["spriteType", "castId", "unknown02", "unknown03", "y", "x", "height", "width", "flag2", "flag1"],
}

if __name__ == "__main__":
    import sys
    open(sys.argv[1], "w").write(main())
