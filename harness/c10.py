"""C10 — every decoder terminates with work bounded by the size of its input (+ the output size it legitimately declares)."""
import hashlib, json, os, resource, signal, struct, sys, time, tracemalloc
from pathlib import Path
from core import Case, canon, hx, REPO
import c01

PROP = "C10"
LEAN_MODULES = ["DrxProps.C10", "DrxProps.C10Cast", "DrxProps.C10Idx", "DrxProps.C10Snd", "DrxProps.C10Bitd", "DrxProps.C10Score", "DrxProps.C10Lscr"]
FAMILIES = ["riff", "cast", "idx", "text", "snd", "score", "lscr"]
RULE = ("for each public decoder: real files from the repo's fixtures (<= 64 KiB), mutated copies with every 1/2/4-byte field at the "
        "leading offsets set to 0, 1, -1, max, min and self-referential (len) values, truncations at many offsets, random byte strings, and "
        "generated containers/records; each call runs in a worker under an interval-timer alarm (hang => 'timeout') and an address-space "
        "limit (blow-up => 'memory'), with sys.monitoring counting executed lines of drxtract code and tracemalloc the peak allocation; "
        "the bound checked is lines <= A*(len+declared)+C and peak <= B*(len+declared)+M where 'declared' is the output size the input "
        "legitimately announces (bitmap canvas bytes, frames*channels, declared sample bytes present in the data). Loop-iteration counts of "
        "the container walker are compared with the Lean counting twin. distinct_nontrivial = distinct (decoder, input) pairs that ran to "
        "completion or to an ordinary error.")
TRUSTED = ["CPython's own costs (big ints, list.remove, allocator) are outside the Lean model; they are observed by the resource-limited run",
           "line counts via sys.monitoring, allocation via tracemalloc", "bounds constants A=600 C=60000 B=96 M=4MiB (generous: a violation is an order-of-magnitude blow-up)"]
ASSUMPTIONS = ["bitmap canvases in generated inputs are limited to 512x512 so that 'declared' stays small", "inputs <= 64 KiB"]

A_LINES, C_LINES = 600, 60000
B_MEM, M_MEM = 96, 2 << 20
TIMEOUT_S = 60        # CPU seconds of this worker (ITIMER_VIRTUAL): immune to machine load
UNDECIDED = []        # inputs on which the time limit fired inside the work bound (recorded in the evidence)
FILES = REPO / "tests" / "files"


# ---------------------------------------------------------------------------------------------- decoders under test

def _names_for(lscr_path: Path):
    from drxtract.lingosrc.parse.lnam import parse_lnam_file_data
    cands = [lscr_path.with_suffix(".Lnam")] + sorted(lscr_path.parent.glob(lscr_path.stem.split("_")[0] + "*.Lnam"))
    for c in cands:
        if c.exists():
            return c.read_bytes()
    return b""


def dec_riff(d, aux):
    from drxtract.riff.riff import parse_riff
    return parse_riff(d, 0, aux.get("order", ">"))
def dec_mmap(d, aux):
    from drxtract.riff.mmap import parse_mmap
    return parse_mmap(d, aux.get("order", ">"))
def dec_locate(d, aux):
    from drxtract.riff.riff import find_riff_in_exe
    return find_riff_in_exe(d)
def dec_key(d, aux):
    from drxtract.key import parse_key_file_data
    return parse_key_file_data(aux.get("order", ">"), d)
def dec_cas(d, aux):
    from drxtract.cas import parse_cas_file_data
    return parse_cas_file_data(d)
def dec_lctx(d, aux):
    from drxtract.lctx import parse_lctx_file_data
    return parse_lctx_file_data(d)
def dec_lnam(d, aux):
    from drxtract.lingosrc.parse.lnam import parse_lnam_file_data
    return parse_lnam_file_data(d)
def dec_vwlb(d, aux):
    from drxtract.vwlb import parse_vwlb_data
    return parse_vwlb_data(d)
def dec_vwcf(d, aux):
    from drxtract.vwcf import parse_vwcf_file_data
    return parse_vwcf_file_data(d)
def dec_cast(d, aux):
    from drxtract.cast import parse_cast_file_data
    return parse_cast_file_data(d)
def dec_stxt(d, aux):
    from drxtract.stxt import parse_stxt_data
    return parse_stxt_data(d, [])
def dec_fmap(d, aux):
    from drxtract.fmap import parse_fmap_data
    return parse_fmap_data(d)
def dec_clut(d, aux):
    from drxtract.clut import clut2palette
    from drxtract.clut.clut import clut2rgb
    return clut2palette(d), clut2rgb(d)
def dec_bitd(d, aux):
    from drxtract.bitd import bitd2bmp
    return bitd2bmp(dict(aux["cast"]), bytes.fromhex(aux.get("clut", "")), d)
def dec_snd(d, aux):
    from drxtract.snd import snd_to_sampled
    return snd_to_sampled(d)
def dec_vwsc(d, aux):
    from drxtract.vwsc import parse_vwsc_file_data, vwsc_to_score
    return vwsc_to_score(parse_vwsc_file_data(d))
def dec_lscr(d, aux):
    from drxtract.lingosrc.parse.lnam import parse_lnam_file_data
    from drxtract.lingosrc.parse.lscr import parse_lrcr_file_data
    from drxtract.lingosrc.codegen.lingo import generate_lingo_code
    from drxtract.lingosrc.codegen.js import generate_js_code
    names = parse_lnam_file_data(bytes.fromhex(aux.get("lnam", ""))) if aux.get("lnam") else []
    s = parse_lrcr_file_data(d, names)
    return generate_lingo_code(s), generate_js_code(s)
def dec_dir(d, aux):
    from drxtract.dir import parse_dir_file_data
    return parse_dir_file_data(aux.get("order", "<"), 0, d)

DECODERS = dict(riff=dec_riff, mmap=dec_mmap, locate=dec_locate, key=dec_key, cas=dec_cas, lctx=dec_lctx, lnam=dec_lnam, vwlb=dec_vwlb,
                vwcf=dec_vwcf, cast=dec_cast, stxt=dec_stxt, fmap=dec_fmap, clut=dec_clut, bitd=dec_bitd, snd=dec_snd, vwsc=dec_vwsc,
                lscr=dec_lscr, dir=dec_dir)


def declared(name, d: bytes, aux) -> int:
    """output size the input legitimately announces"""
    if name == "bitd":
        c = aux["cast"]
        try:
            w, h = abs(int(c.get("width", 0))) + abs(int(c.get("w_padding", 0))) + 32, abs(int(c.get("height", 0))) + abs(int(c.get("h_padding", 0))) + 1
            return w * h * 4 + 1200
        except Exception:
            return 0
    if name == "vwsc":
        # every frame record (>= 2 bytes) legitimately yields one parsed frame of channel_count channels; the channel count is a
        # 16-bit header word (its position depends on the optional wrapper): take the largest non-negative word of the header area
        words = [int.from_bytes(d[i:i + 2], "big", signed=True) for i in range(0, min(len(d) - 1, 48), 2)]
        c = max([w for w in words if w >= 0] + [1])
        return (len(d) // 2 + 1) * c + 40 * len(d)
    if name == "snd":
        # each sound command legitimately replays the sample area its header points at (the same area may be named by several
        # commands): at most (number of 8-byte command records) * len(d) output bytes
        return (len(d) // 8 + 1) * len(d)
    if name == "dir":
        return 64 * len(d)
    return 0


# ---------------------------------------------------------------------------------------------- seeds

_SEEDS = None


def seeds():
    """{decoder: [(bytes, aux)]} real inputs from the fixtures"""
    global _SEEDS
    if _SEEDS is not None:
        return _SEEDS
    S = {k: [] for k in DECODERS}
    rd = lambda p: Path(p).read_bytes()
    def first(dirp, pat):
        return sorted(Path(dirp).rglob(pat))
    for name, sub, pat, aux in (("key", "key", "*.KEY*", {"order": ">"}), ("cas", "cas", "*.CAS*", {}), ("lctx", "lctx", "*.Lctx", {}),
                                ("vwlb", "vwlb", "*.VWLB", {}), ("vwcf", "vwcf", "*.VWCF", {}), ("vwsc", "vwsc", "*.VWSC", {}),
                                ("fmap", "fmap", "*.Fmap", {}), ("stxt", "stxt", "*.STXT", {}), ("snd", "snd", "*.snd*", {}),
                                ("clut", "clut", "*.CLUT", {}), ("clut", "bitd", "*.CLUT", {})):
        for p in first(FILES / sub, pat):
            b = rd(p)
            if len(b) <= 65536:
                S[name].append((b, dict(aux)))
    for sub in S:
        pass
    # anything else in those folders that is not json/bmp/wav/txt and small: try by folder name
    for name in ("key", "cas", "lctx", "vwlb", "vwcf", "vwsc", "fmap", "stxt", "snd", "clut"):
        if not S[name]:
            for p in sorted((FILES / name).rglob("*")):
                if p.is_file() and p.suffix.lower() not in (".json", ".bmp", ".wav", ".txt", ".md", ".py") and p.stat().st_size <= 65536:
                    S[name].append((rd(p), {"order": ">"} if name == "key" else {}))
    for p in sorted((FILES / "lingo").glob("*.Lnam"))[:12]:
        S["lnam"].append((rd(p), {}))
    for p in sorted((FILES / "lingo").glob("*.Lscr")):
        S["lscr"].append((rd(p), {"lnam": _names_for(p).hex()}))
    for dj in sorted((FILES / "bitd").glob("*/data.json")):
        cast = json.loads(dj.read_text())
        for p in dj.parent.glob("*.BITD"):
            b = rd(p)
            if len(b) <= 65536:
                cl = next(iter(dj.parent.glob("*.CLUT")), None)
                clut = ""
                if cl is not None:
                    from drxtract.clut import clut2palette
                    clut = bytes(clut2palette(rd(cl))).hex()
                S["bitd"].append((b, {"cast": {k: cast[k] for k in cast if k in ("depth", "width", "height", "w_padding", "h_padding", "palette", "palette_txt", "type", "top", "left", "bottom", "right")}, "clut": clut}))
    import c05
    pool = c05.harvest()
    seen = set()
    for m in pool["members"]:
        if m["cast"] not in seen:
            seen.add(m["cast"]); S["cast"].append((m["cast"], {}))
    S["cast"] = S["cast"][:40]
    for p in sorted((FILES / "cast").rglob("*.DIR")):
        b = rd(p)
        if len(b) <= 65536:
            S["dir"].append((b, {"order": "<" if b[:4] == b"XFIR" else ">"}))
            S["riff"].append((b, {"order": "<" if b[:4] == b"XFIR" else ">"}))
    S["dir"] = S["dir"][:10]; S["riff"] = S["riff"][:6]
    # container pieces from generated movies
    import random
    rng = random.Random(99)
    for _ in range(6):
        order = rng.choice("<>")
        chunks = [(b"imap", b"")] + [(c01.rand_fourcc(rng), c01.rand_payload(rng)) for _ in range(rng.randrange(2, 12))]
        data, entries, offs, ch = c01.build_movie(order, b"", chunks, 1)
        S["riff"].append((data, {"order": order}))
        S["mmap"].append((ch[1][1], {"order": order}))
        S["locate"].append((c01.rand_prefix(rng, "<") + data, {}))
    # generated inputs of the other families' harness modules (every header variant / record kind, not only what the fixtures
    # contain): the byte strings are read off the driver lines of their quick-tier cases
    HARVEST = {("idx", "vwcf"): ("vwcf", 2, None), ("idx", "lnam"): ("lnam", 3, None), ("idx", "vwlb"): ("vwlb", 3, None),
               ("idx", "key"): ("key", 3, 2), ("idx", "lctx"): ("lctx", 2, None), ("idx", "cas"): ("cas", 2, None),
               ("text", "stxt"): ("stxt", 4, None), ("text", "fmap"): ("fmap", 3, None), ("cast", "parse"): ("cast", 3, None),
               ("snd", "decode"): ("snd", 2, None), ("score", "parse"): ("vwsc", 2, None)}
    import importlib
    for modname in ("c17", "c16", "c15", "c07", "c08"):
        try:
            mod = importlib.import_module(modname)
            got = {}
            for c in mod.cases(random.Random(7), "quick"):
                for l in c.lines:
                    t = l.split()
                    h = HARVEST.get((t[0], t[1])) if len(t) > 2 else None
                    if h and len(t) > h[1]:
                        try:
                            b = bytes.fromhex("" if t[h[1]] == "-" else t[h[1]])
                        except ValueError:
                            continue
                        if len(b) <= 65536:
                            got.setdefault(h[0], {}).setdefault(b, {"order": t[h[2]]} if h[2] is not None else {})
            for name, d in got.items():
                items = list(d.items())
                step = max(1, len(items) // 30)
                S[name] += items[::step][:30]
        except Exception:
            continue
    _SEEDS = S
    return S


ADV32 = [0, 1, 2, -1, -2, 2 ** 31 - 1, -2 ** 31, 0x7FFF, 0x8000, 0xFFFF, 0x10000, 12, 20, 24, -3, -4, -6, -8, -12, -16, -20, -24]


def mutate(rng, b: bytes, how):
    b = bytearray(b)
    n = len(b)
    if how == "trunc":
        return bytes(b[:rng.randrange(0, n + 1)]) if n else b""
    if how == "field":
        if n == 0:
            return b""
        w = rng.choice([1, 2, 2, 4, 4, 4])
        off = rng.randrange(0, max(1, min(n, 96)))
        v = rng.choice(ADV32 + [n, n - 1, n + 1, off, n // 2, 2 * n])
        be = rng.random() < 0.7
        bs = (v & ((1 << (8 * w)) - 1)).to_bytes(w, "big" if be else "little")
        b[off:off + w] = bs
        return bytes(b[:max(n, off + w)])
    if how == "field-deep":
        if n == 0:
            return b""
        w = rng.choice([1, 2, 4])
        off = rng.randrange(0, n)
        v = rng.choice(ADV32 + [n, off])
        b[off:off + w] = (v & ((1 << (8 * w)) - 1)).to_bytes(w, "big")
        return bytes(b[:max(n, off + w)])
    if how == "random":
        return bytes(rng.randrange(256) for _ in range(rng.choice([0, 1, 2, 4, 8, 12, 20, 24, 64, 200, rng.randrange(0, 4096)])))
    if how == "noise":
        for _ in range(rng.randrange(1, 6)):
            if n:
                b[rng.randrange(n)] = rng.randrange(256)
        return bytes(b)
    if how == "grow":
        return bytes(b) + bytes(rng.randrange(256) for _ in range(rng.randrange(1, 64)))
    return bytes(b)


def snd_two_command_grid():
    """every pair of sound headers over a small adversarial grid, as two buffer commands of one format-2 resource
    (state such as sample width and channel count is carried from one command to the next through the SampledSound)"""
    V = [0, 1, 3, 0x00400000, 0x7FFFFFFF]
    hdrs = []
    for L in V:
        hdrs.append(("s", struct.pack(">II", 0, L) + struct.pack(">HH", 22254, 0) + bytes(8) + b"\x00\x3c"))
    for ch in V:
        for fr in (0, 1, 4, 0x00400000):
            for bits in (8, 16):
                hdrs.append(("e", struct.pack(">II", 0, ch) + struct.pack(">HH", 22254, 0) + bytes(8) + b"\xff\x3c"
                             + struct.pack(">I", fr) + bytes(10) + bytes(12) + struct.pack(">H", bits) + bytes(14)))
    out = []
    data = bytes(range(1, 17))
    for k1, h1 in hdrs:
        for k2, h2 in hdrs:
            pre = struct.pack(">hH", 2, 0) + struct.pack(">H", 2)
            off1 = len(pre) + 16
            off2 = off1 + len(h1) + len(data)
            cmds = struct.pack(">HHI", 0x8051, 0, off1) + struct.pack(">HHI", 0x8051, 0, off2)
            out.append(("snd", pre + cmds + h1 + data + h2 + data, {}, "grid-snd-2cmd"))
    return out


def layout_pair_grid():
    """for readers whose header layout is known from the source (harness/gen_layouts.py): every PAIR of header fields set to
    adversarial values at the same time (a count together with a stride, a size together with an offset, ...)"""
    import gen_layouts as gl
    S = seeds()
    out = []
    riff = REPO / "drxtract" / "riff"
    specs = []
    try:
        specs.append(("mmap", gl.layout_of(riff / "mmap.py", "parse_mmap", None)))
    except Exception:
        pass
    for name, fields in specs:
        for seed, aux in (S.get(name) or [])[:2]:
            for i in range(len(fields)):
                for j in range(i + 1, len(fields)):
                    for vi in (0, 1, -1, "max"):
                        for vj in (0, 1, -1, "max"):
                            b = bytearray(seed)
                            for (nm, off, w, sg, _), v in ((fields[i], vi), (fields[j], vj)):
                                if v == "max":
                                    v = (1 << (8 * w - 1)) - 1
                                if off + w <= len(b):
                                    b[off:off + w] = (v & ((1 << (8 * w)) - 1)).to_bytes(w, "big" if aux.get("order", ">") == ">" else "little")
                            out.append((name, bytes(b), aux, "grid-pair"))
    return out


def small_field_grid():
    """exhaustive over small values of the record-size fields of the score and container walkers"""
    out = []
    # container: chunk size field of the first chunk, both orders
    for order in "<>":
        for v in list(range(-12, 40)) + [2 ** 31 - 1, -2 ** 31]:
            body = b"AAAA" + struct.pack(order + "i", v) + bytes(range(1, 21))
            head = (b"XFIR" if order == "<" else b"RIFX") + struct.pack(order + "i", len(body) + 4) + (b"39VM" if order == "<" else b"MV93")
            out.append(("riff", head + body, {"order": order}, "grid-riff-size"))
    # score: frame record size / delta size / delta offset at small values (the seeds' own header is reused)
    S = seeds()
    for seed, aux in S["vwsc"][:1]:
        hdr_len = 20
        for v in list(range(-40, 40)):
            for pos in (0, 2, 4):
                b = bytearray(seed[:400])
                # find the first frame record behind the wrapper/header heuristically: the check does not need to be exact
                for base in (hdr_len, hdr_len + 12, hdr_len + 20):
                    bb = bytearray(b)
                    if base + pos + 2 <= len(bb):
                        bb[base + pos:base + pos + 2] = struct.pack(">h", v)
                        out.append(("vwsc", bytes(bb), {}, "grid-vwsc"))
    # score, exact: a two-frame score built here (20-byte header, 3 channels of 20 bytes), with the frame record size, the
    # delta size and the delta offset of the first / second delta of the first frame set to every value in -40..40 and the
    # 16-bit extremes (a size whose negative equals the bytes just consumed makes a walker re-read the same header)
    def score(recs):
        body = b"".join(struct.pack(">h", 2 + sum(4 + len(d) for _, _, d in r) if sz is None else sz) +
                        b"".join(struct.pack(">hh", len(d) if ds is None else ds, do) + d for ds, do, d in r) for sz, r in recs)
        n = 20 + len(body)
        return struct.pack(">iiihhhh", n, 0x14, len(recs), 4, 20, 3, 0) + body
    vals = list(range(-40, 41)) + [0x7FFF, -0x8000, 0x7FFE, -0x7FFF]
    tail = (None, [(None, 0, bytes(range(1, 9)))])
    for v in vals:
        out.append(("vwsc", score([(v, [(None, 0, bytes(8)), (None, 20, bytes(6))]), tail]), {}, "grid-vwsc-exact"))
        for k in (0, 1):
            d = [[None, 0, bytes(8)], [None, 20, bytes(6)]]
            d[k][0] = v
            out.append(("vwsc", score([(None, [tuple(x) for x in d]), tail]), {}, "grid-vwsc-exact"))
            d = [[None, 0, bytes(8)], [None, 20, bytes(6)]]
            d[k][1] = v
            out.append(("vwsc", score([(None, [tuple(x) for x in d]), tail]), {}, "grid-vwsc-exact"))
    return out


def shared_record_grid():
    """tables whose entries point into a common data area (font map: displacement -> length-prefixed name): MANY entries sharing
    ONE record whose length field is adversarial (negative lengths make a slice end count from the end of the area), so that the
    output would be entries x area unless the reader bounds the total by the area"""
    out = []
    def fmap(nfonts, cap, disps, area):
        header = struct.pack(">hhhhiihhhhhh", 0, 0, 0, 0, nfonts, cap, 0, 8, 0, 0, 0, 0) + \
            b"".join(struct.pack(">ihh", disps[i % len(disps)], 0, i & 0x7FFF) for i in range(cap))
        return struct.pack(">ii", len(header), len(area)) + header + area
    # marker lists whose label offsets lie at / above 0x8000 in a pool of more than 32 768 bytes (a 16-bit offset read with the wrong
    # signedness makes every label a slice of tens of kilobytes): 10 / 500 / 1 000 markers
    for nmark in (10, 500, 1000):
        P = 0x8000 + 64
        recs = b"".join(struct.pack(">hH", i, 0x8000 + (i % 8)) for i in range(nmark)) + struct.pack(">hH", nmark, 0x8000 + 16)
        out.append(("vwlb", struct.pack(">h", nmark) + recs + bytes(65 + (i % 26) for i in range(P)), {}, "grid-high-offsets"))
        recs = b"".join(struct.pack(">hH", i, min(P, 70 * i)) for i in range(nmark + 1))
        out.append(("vwlb", struct.pack(">h", nmark) + recs + bytes(65 + (i % 26) for i in range(P)), {}, "grid-high-offsets"))
    for alen in (64, 4000, 24000):
        for nch in (-1, -2, -5, -alen + 8, -alen, 0, 1, alen - 4, alen, alen * 2, 2 ** 31 - 1, -2 ** 31):
            area = struct.pack(">i", nch) + bytes(65 + i % 26 for i in range(alen - 4))
            for nf in (1, 2, 40, 1500):
                if 8 + 28 + 8 * nf + alen > 65536:
                    continue
                out.append(("fmap", fmap(nf, nf, [0], area), {}, "grid-shared-record"))
                out.append(("fmap", fmap(nf, nf, [0, 8, 4], area), {}, "grid-shared-record"))
    return out


# ---- scaling families: the same shape at size N and 2N; executed lines must not grow faster than ~linearly

def _fam_riff(n):
    chunks = [(b"imap", b"")] + [(b"ABCD", bytes([i % 251]) * (i % 7)) for i in range(n)]
    data, *_ = c01.build_movie(">", b"", chunks, 1)
    return "riff", data, {"order": ">"}
def _fam_mmap(n):
    chunks = [(b"imap", b"")] + [(b"ABCD", b"") for i in range(n)]
    data, entries, offs, ch = c01.build_movie("<", b"", chunks, 1)
    return "mmap", ch[1][1], {"order": "<"}
def _fam_cas(n):
    return "cas", b"".join(struct.pack(">i", i % 5) for i in range(n)), {}
def _fam_key(n):
    return "key", struct.pack(">iii", 12, 12, n + 1) + b"".join(struct.pack(">ii", 3 + i, 1 + i % 9) + b"CASt" for i in range(n + 1)), {"order": ">"}
def _fam_locate(n):
    return "locate", (b"XFIR" + bytes(8)) * n + b"XFIR\0\0\0\0" + b"39VM", {}
def _fam_lscr_straight(n):
    import lscr_common as lc
    lnam = lc.build_lnam([b"test", b"x"])
    return "lscr", lc.build_lscr([dict(name=0, args=[], locals=[1], code=b"\x41\x01\x52\x00" * n + b"\x01")]), {"lnam": lnam.hex()}
def _fam_lscr_loops(n):
    import lscr_common as lc
    lnam = lc.build_lnam([b"test", b"x"])
    loop = b"\x41\x01\x95\x00\x08\x41\x01\x52\x00\x54\x09"     # repeat while 1 / set x = 1 / end repeat
    return "lscr", lc.build_lscr([dict(name=0, args=[], locals=[1], code=loop * n + b"\x01")]), {"lnam": lnam.hex()}
def _fam_lscr_ifs(n):
    import lscr_common as lc
    lnam = lc.build_lnam([b"test", b"x"])
    st = b"\x41\x01\x95\x00\x07\x41\x01\x52\x00"                  # if 1 then set x = 1 end if
    return "lscr", lc.build_lscr([dict(name=0, args=[], locals=[1], code=st * n + b"\x01")]), {"lnam": lnam.hex()}

def _fam_lscr_nested(n):
    import lscr_common as lc
    lnam = lc.build_lnam([b"test", b"x"])
    return "lscr", lc.build_lscr([dict(name=0, args=[], locals=[1], code=b"\x41\x01" + b"\x09" * n + b"\x52\x00\x01")]), {"lnam": lnam.hex()}

def _fam_lscr_chain(n, unit, start=b"\x4c\x00"):
    # one recursive expression node kind nested n deep under one statement (`set x = <chain>`): a generator that renders a child twice
    # costs 2^n (seeded change C10-m2 of round 14: `the P of obj` generated its object twice in JavaScript; the text was unchanged)
    import lscr_common as lc
    lnam = lc.build_lnam([b"test", b"x", b"name"])
    return "lscr", lc.build_lscr([dict(name=0, args=[], locals=[1], code=start + unit * n + b"\x52\x00\x01")]), {"lnam": lnam.hex()}
def _fam_lscr_chain_prop(n): return _fam_lscr_chain(n, b"\x61\x02")
def _fam_lscr_chain_not(n): return _fam_lscr_chain(n, b"\x14")
def _fam_lscr_chain_add(n): return _fam_lscr_chain(n, b"\x41\x01\x05")
def _fam_lscr_chain_list(n): return _fam_lscr_chain(n, b"\x43\x01\x1e")
def _fam_lscr_chain_call(n): return _fam_lscr_chain(n, b"\x43\x01\x57\x02")

def _fam_vwlb_zigzag(n):
    # n markers whose label offsets alternate between 0 and the pool size: every second label is the whole pool
    P = 4 * n
    recs = b"".join(struct.pack(">hH", i, 0 if i % 2 == 0 else P) for i in range(n + 1))
    return "vwlb", struct.pack(">h", n) + recs + bytes(65 + (i % 26) for i in range(P)), {}

def _lscr_fam(fn, *args):
    import lscr_common as lc
    return "lscr", getattr(lc, fn)(*args), {"lnam": lc.build_lnam([b"test", b"x"]).hex()}

def _fam_lscr_shared_locals(n): return _lscr_fam("fam_shared_locals", n, 20 * n)
def _fam_lscr_shared_args(n): return _lscr_fam("fam_shared_table", n, 20 * n, "args")
def _fam_lscr_shared_globs(n): return _lscr_fam("fam_shared_table", n, 20 * n, "globs")
def _fam_lscr_shared_locals_cancel_args(n): return _lscr_fam("fam_shared_locals_cancel", n, 20 * n, "args")
def _fam_lscr_shared_locals_cancel_globs(n): return _lscr_fam("fam_shared_locals_cancel", n, 20 * n, "globs")
def _fam_lscr_shared_code(n): return _lscr_fam("fam_shared_code", n, 10 * n)
def _fam_lscr_shared_consts(n): return _lscr_fam("fam_shared_consts", 15 * n, 100 * n)
def _fam_lscr_neg_length_consts(n): return _lscr_fam("fam_neg_length_consts", 15 * n, 100 * n)
def _fam_lscr_neg_length_floats(n): return _lscr_fam("fam_neg_length_consts", 15 * n, 100 * n, 9)

def _vwsc(recs, channels=3):
    body = b"".join(struct.pack(">h", 2 + sum(4 + len(d) for _, d in r)) + b"".join(struct.pack(">hh", len(d), o) + d for o, d in r) for r in recs)
    return struct.pack(">iiihhhh", 20 + len(body), 0x14, len(recs), 4, 20, channels, 0) + body
def _fam_vwsc_frames(n):
    return "vwsc", _vwsc([[(20 * (i % 3) + 4, bytes([1 + i % 60]))] for i in range(n)]), {}
def _fam_vwsc_overrun(n):
    # a delta run that starts at the end of the declared channel area (3 channels of 20 bytes), followed by ordinary small frames:
    # a reader that lets the run grow its buffer decodes len(buffer)/20 channels in every later frame
    return "vwsc", _vwsc([[(60, bytes(40 * n))]] + [[(4, bytes([1 + i % 60]))] for i in range(n)]), {}
def _fam_vwsc_inrange_rewrites(n):
    return "vwsc", _vwsc([[(0, bytes([i % 7 + 1]) * 60)] for i in range(n)]), {}
def _fmap(nfonts, disps, area):
    header = struct.pack(">hhhhiihhhhhh", 0, 0, 0, 0, nfonts, nfonts, 0, 8, 0, 0, 0, 0) + \
        b"".join(struct.pack(">ihh", disps[i % len(disps)], 0, i & 0x7FFF) for i in range(nfonts))
    return struct.pack(">ii", len(header), len(area)) + header + area
def _fam_fmap_fonts(n):
    area = b"".join(struct.pack(">i", 6) + b"Font%02d" % (i % 100) for i in range(n))
    return "fmap", _fmap(n, [10 * i for i in range(n)], area), {}
def _fam_fmap_shared(n):
    area = struct.pack(">i", -5) + bytes(65 + i % 26 for i in range(8 * n))
    return "fmap", _fmap(n, [0], area), {}


FAMILIES_SCALING = dict(vwsc_frames=(_fam_vwsc_frames, 300), vwsc_overrun=(_fam_vwsc_overrun, 150), vwsc_rewrites=(_fam_vwsc_inrange_rewrites, 150),
                        fmap_fonts=(_fam_fmap_fonts, 400), fmap_shared=(_fam_fmap_shared, 400),
                        lscr_shared_locals=(_fam_lscr_shared_locals, 10), lscr_shared_code=(_fam_lscr_shared_code, 10),
                        lscr_shared_args=(_fam_lscr_shared_args, 10), lscr_shared_globs=(_fam_lscr_shared_globs, 10),
                        lscr_shared_locals_cancel_args=(_fam_lscr_shared_locals_cancel_args, 10), lscr_shared_locals_cancel_globs=(_fam_lscr_shared_locals_cancel_globs, 10),
                        lscr_shared_consts=(_fam_lscr_shared_consts, 40), lscr_neg_length_consts=(_fam_lscr_neg_length_consts, 40), lscr_neg_length_floats=(_fam_lscr_neg_length_floats, 40), vwlb_zigzag=(_fam_vwlb_zigzag, 1500), lscr_nested=(_fam_lscr_nested, 100), lscr_chain_prop=(_fam_lscr_chain_prop, 11), lscr_chain_not=(_fam_lscr_chain_not, 11), lscr_chain_add=(_fam_lscr_chain_add, 11),
                        lscr_chain_list=(_fam_lscr_chain_list, 11), lscr_chain_call=(_fam_lscr_chain_call, 11), riff=(_fam_riff, 300), mmap=(_fam_mmap, 300), cas=(_fam_cas, 2000), key=(_fam_key, 500), locate=(_fam_locate, 500),
                        lscr_straight=(_fam_lscr_straight, 250), lscr_loops=(_fam_lscr_loops, 120), lscr_ifs=(_fam_lscr_ifs, 150))
SCALING_MAX_RATIO = 2.6      # doubling the input may at most (a bit more than) double the executed lines


def scaling_cases():
    out = []
    for fam, (f, n) in FAMILIES_SCALING.items():
        try:
            name, d1, aux = f(n)
            _, d2, _ = f(2 * n)
        except Exception:
            continue
        spec = dict(decoder=name, aux=aux, hex=hx(d1), hex2=hx(d2), kind="scaling", family=fam, n=len(d1), n2=len(d2), sha=hashlib.sha1(d1).hexdigest()[:12])
        out.append(Case(kind=f"{name}:scaling:{fam}", spec=spec, lines=[f"#c10 scaling {fam}"], expect=[None]))
    return out


# decoders with a Lean counting twin: (driver line builder, [(module, function)] whose loops' rounds are summed on the real code)
TWINS = {
    "riff": (lambda data, aux: f"riff steps {aux['order']} 0 {hx(data)}" if aux.get("order") in ("<", ">") else None,
             [("drxtract.riff.riff", "parse_riff")]),
    "cast": (lambda data, aux: f"cast steps {hx(data)}", [("drxtract.cast.cast", "parse_basic_cast_data")]),
    "snd": (lambda data, aux: f"snd steps {hx(data)}",
            [("drxtract.snd.format", "parse_snd_fmt1"), ("drxtract.snd.format", "parse_snd_commands"),
             ("drxtract.snd.snd2sampled", "snd_to_sampled"), ("drxtract.snd.command.bufferCmd", "_get_frames")]),
    "lscr": (lambda data, aux: f"lscr steps {hx(data)} {aux['lnam'] if aux.get('lnam') else '-'}",
             [("drxtract.lingosrc.parse.lscr", "parse_lrcr_crb"), ("drxtract.lingosrc.parse.lscr", "parse_lrcr_prb"),
              ("drxtract.lingosrc.parse.lscr", "parse_lrcr_grb"), ("drxtract.lingosrc.parse.lscr", "parse_frb_func_names"),
              ("drxtract.lingosrc.parse.lscr", "parse_frb"), ("drxtract.lingosrc.parse.lscr", "parse_opcodes"),
              ("drxtract.lingosrc.opcodes.jump_op", "process"),
              ("drxtract.lingosrc.parse.loop_detection", "condition_detect_in_statements"),
              ("drxtract.lingosrc.parse.loop_detection", "loop_detect_in_statements")]),
    "vwsc": (lambda data, aux: f"score stepsum {hx(data)}",
             [("drxtract.vwsc.vwsc", "parse_vwsc_data"), ("drxtract.vwsc.cparser", "parse_vwsc_channels"), ("drxtract.vwsc.vwsc", "vwsc_to_score")]),
    "key": (lambda data, aux: f"idx steps key {aux.get('order', '>')} {hx(data)}", [("drxtract.key.key", "parse_key_file_data")]),
    "cas": (lambda data, aux: f"idx steps cas {hx(data)}", [("drxtract.cas.cas", "parse_cas_file_data")]),
    "lctx": (lambda data, aux: f"idx steps lctx {hx(data)}", [("drxtract.lctx.lctx", "parse_lctx_file_data")]),
    "lnam": (lambda data, aux: f"idx steps lnam mac_roman {hx(data)}", [("drxtract.lingosrc.parse.lnam", "parse_lnam_file_data")]),
    "vwlb": (lambda data, aux: f"idx steps vwlb mac_roman {hx(data)}", [("drxtract.vwlb.vwlb", "parse_vwlb_data")]),
    "fmap": (lambda data, aux: f"text steps fmap {hx(data)} mac_roman", [("drxtract.fmap.fmap", "parse_fmap_data")]),
    "stxt": (lambda data, aux: f"text steps stxt {hx(data)} mac_roman 0", [("drxtract.stxt.stxt", "parse_stxt_data")]),
}
_LOOPS = {}


def loop_first_lines(modname, func):
    """(file, line) of the first body line of every for/while loop of a function: one hit per round that starts"""
    key = (modname, func)
    if key not in _LOOPS:
        import ast, importlib
        mod = importlib.import_module(modname)
        fn = next(n for n in ast.walk(ast.parse(open(mod.__file__).read())) if isinstance(n, ast.FunctionDef) and n.name == func)
        _LOOPS[key] = [(mod.__file__, l.body[0].lineno) for l in ast.walk(fn) if isinstance(l, (ast.For, ast.While))]
    return _LOOPS[key]


def cases(rng, tier):
    per = dict(quick=90, thorough=1500, search=600)[tier]
    S = seeds()
    out = scaling_cases()
    def mk(name, data, aux, kind):
        data = data[:65536]
        lines = [f"#c10 run {name}"]
        spec = dict(decoder=name, aux=aux, hex=hx(data), kind=kind, sha=hashlib.sha1(data).hexdigest()[:12], n=len(data))
        if name in TWINS:
            tl = TWINS[name][0](data, aux)
            if tl:
                lines = [tl] + lines
        return Case(kind=f"{name}:{kind}", spec=spec, lines=lines, expect=[None] * len(lines))
    for name, data, aux, kind in small_field_grid() + snd_two_command_grid() + layout_pair_grid() + shared_record_grid():
        out.append(mk(name, data, aux, kind))
    # constant records whose length word is negative so that the slice end counts from the end of the file (F161), small enough for
    # the model to be compared on them
    for ctype in (1, 9):
        for k, pad in ((1, 8), (3, 40), (8, 200), (40, 1000)):
            name, data, aux = _lscr_fam("fam_neg_length_consts", k, pad, ctype)
            out.append(mk(name, data, aux, "neg-length-consts"))
    for name in DECODERS:
        ss = S.get(name) or [(b"", {})]
        for data, aux in ss:
            out.append(mk(name, data, aux, "seed"))
        for i in range(per):
            data, aux = rng.choice(ss)
            how = rng.choice(["trunc", "field", "field", "field", "field-deep", "random", "noise", "grow"])
            aux2 = dict(aux)
            if name == "bitd" and rng.random() < 0.5:
                c = dict(aux["cast"])
                k = rng.choice(["width", "height", "w_padding", "h_padding", "depth"])
                c[k] = rng.choice([0, 1, 2, 3, 7, 8, 16, 31, 32, 33, 255, 256, 511, 512, -1]) if k != "depth" else rng.choice([1, 2, 4, 8, 16, 32, 24, 0])
                aux2["cast"] = c
            out.append(mk(name, mutate(rng, data, how), aux2, how))
    return out


# ---------------------------------------------------------------------------------------------- measuring the real code

_TOOL = None
_COUNT = [0]
_BYLINE = {}
_ROOT = None


def _line_cb(code, line):
    fn = code.co_filename
    if _ROOT in fn:
        _COUNT[0] += 1
        if _BYLINE is not None:
            k = (fn, line)
            _BYLINE[k] = _BYLINE.get(k, 0) + 1
        return None
    return sys.monitoring.DISABLE


class _Timeout(BaseException):
    pass


def _alarm(sig, frm):
    raise _Timeout()


def measure(name, data, aux):
    global _TOOL, _ROOT, _BYLINE
    if _ROOT is None:
        import drxtract
        _ROOT = str(Path(drxtract.__file__).parent)
    if _TOOL is None:
        _TOOL = 4
        try:
            sys.monitoring.use_tool_id(_TOOL, "c10")
        except ValueError:
            pass
        sys.monitoring.register_callback(_TOOL, sys.monitoring.events.LINE, _line_cb)
        try:
            soft, hard = resource.getrlimit(resource.RLIMIT_AS)
            lim = 6 << 30
            resource.setrlimit(resource.RLIMIT_AS, (lim if hard == resource.RLIM_INFINITY else min(lim, hard), hard))
        except Exception:
            pass
    f = DECODERS[name]
    _COUNT[0] = 0
    _BYLINE.clear()
    outcome = "ok"
    old = signal.signal(signal.SIGVTALRM, _alarm)
    tracemalloc.start()
    sys.monitoring.restart_events()
    sys.monitoring.set_events(_TOOL, sys.monitoring.events.LINE)
    signal.setitimer(signal.ITIMER_VIRTUAL, TIMEOUT_S)
    t0 = time.process_time()
    try:
        f(data, aux)
    except _Timeout:
        outcome = "timeout"
    except MemoryError:
        outcome = "memory"
    except RecursionError:
        outcome = "recursion"
    except Exception:
        outcome = "error"
    finally:
        signal.setitimer(signal.ITIMER_VIRTUAL, 0)
        sys.monitoring.set_events(_TOOL, 0)
        dt = time.process_time() - t0
        peak = tracemalloc.get_traced_memory()[1]
        tracemalloc.stop()
        signal.signal(signal.SIGVTALRM, old)
    return dict(outcome=outcome, lines=_COUNT[0], peak=peak, secs=round(dt, 3))


def _riff_iterations():
    """iterations of the `while index < len(fdata)` loop of parse_riff = executions of its first body line"""
    import inspect
    import drxtract.riff.riff as rr
    src, start = inspect.getsourcelines(rr.parse_riff)
    for i, l in enumerate(src):
        if l.strip().startswith("while index < len(fdata)"):
            return (rr.__file__, start + i + 1)
    return None


def impl(case):
    sp = case["spec"]
    name, aux = sp["decoder"], sp["aux"]
    data = bytes.fromhex("" if sp["hex"] == "-" else sp["hex"])
    if sp.get("kind") == "scaling":
        m1 = measure(name, data, aux)
        m2 = measure(name, bytes.fromhex(sp["hex2"]), aux)
        return [canon(dict(outcome=m1["outcome"] if m1["outcome"] == m2["outcome"] else m1["outcome"] + "/" + m2["outcome"],
                           lines=m1["lines"], lines2=m2["lines"], peak1=m1["peak"], peak=m2["peak"], secs=m2["secs"]))]
    m = measure(name, data, aux)
    case_out = canon(m)
    if len(case["lines"]) == 2:
        rounds = 0
        for modname, func in TWINS[name][1]:
            for key in loop_first_lines(modname, func):
                rounds += _BYLINE.get(key, 0)
        # the loop-round count of the real code (observable whether or not the call ends in an ordinary error)
        steps = str(rounds) if m["outcome"] in ("ok", "error") else None
        return [steps, case_out]
    return [case_out]


def oracle(case, io):
    sp = case["spec"]
    n = sp["n"]
    if len(case["lines"]) == 2 and case["lines"][0].startswith("riff steps") and io[0] is not None:
        it = int(io[0])
        if it * 8 > n + 8:
            return f"container walk made {it} iterations on {n} bytes (each iteration must consume at least 8 bytes)"
    if len(case["lines"]) == 2 and case["lines"][0].startswith("cast steps") and io[0] is not None:
        if 4 * int(io[0]) > 3 * n + 8:
            return f"cast record loops made {io[0]} rounds on {n} bytes (proved bound for the model: 4*rounds <= 3*len + 8)"
    m = json.loads(io[-1])
    if sp.get("kind") == "scaling":
        if m["outcome"] not in ("ok", "error"):
            return f"scaling family {sp['family']}: outcome {m['outcome']}"
        r = m["lines2"] / max(1, m["lines"])
        if r > SCALING_MAX_RATIO:
            return f"scaling family {sp['family']}: doubling the input ({sp['n']} -> {sp['n2']} bytes) multiplies executed lines by {r:.2f} ({m['lines']} -> {m['lines2']}): work is not bounded by a fixed multiple of the input length"
        rp = m["peak"] / max(1, m.get("peak1", m["peak"]))
        if m["peak"] > (2 << 20) and rp > SCALING_MAX_RATIO + 0.4:
            return f"scaling family {sp['family']}: doubling the input ({sp['n']} -> {sp['n2']} bytes) multiplies peak allocation by {rp:.2f} ({m.get('peak1')} -> {m['peak']} bytes): memory is not bounded by a fixed multiple of the input length"
        return None
    dec = declared(sp["decoder"], bytes.fromhex("" if sp["hex"] == "-" else sp["hex"]), sp["aux"])
    if m["outcome"] == "recursion" and n >= 400:
        pass     # CPython's own recursion limit reached by nesting proportional to the input: an ordinary, bounded error
    elif m["outcome"] == "timeout" and m["lines"] <= A_LINES * (n + dec) + C_LINES and m["peak"] <= B_MEM * (n + dec) + M_MEM:
        # the CPU-time limit fired while the work done so far was still inside the bound the input's own declarations allow
        # (e.g. a 353-byte score declaring 30 467 channels x 6 frames, measured under line counting): not decided, not a violation
        UNDECIDED.append(f"{sp['decoder']} {n} bytes declaring {dec}: {m['lines']} lines in {TIMEOUT_S} CPU-s")
        return None
    elif m["outcome"] not in ("ok", "error"):
        return f"{sp['decoder']}: outcome {m['outcome']} on a {n}-byte input (lines={m['lines']}, peak={m['peak']})"
    if m["lines"] > A_LINES * (n + dec) + C_LINES:
        return f"{sp['decoder']}: {m['lines']} executed lines on a {n}-byte input declaring {dec} output bytes exceeds {A_LINES}*(len+declared)+{C_LINES}"
    if m["peak"] > B_MEM * (n + dec) + M_MEM:
        return f"{sp['decoder']}: peak allocation {m['peak']} bytes on a {n}-byte input declaring {dec} output bytes exceeds {B_MEM}*(len+declared)+{M_MEM}"
    return None


def nontrivial(case, io):
    return io[-1] is not None and '"timeout"' not in io[-1] and '"memory"' not in io[-1]


def _m_f37(case, f, p):
    """F37: the decompiler's jump reconstruction rescans/removes over the whole statement list for every jump: quadratic, not worse"""
    sp = case["spec"]
    if sp.get("kind") != "scaling" or sp.get("family") not in ("lscr_loops", "lscr_ifs"):
        return False
    try:
        m = json.loads(f.got)[-1] if f.got.startswith("[") else json.loads(f.got)
        m = json.loads(m) if isinstance(m, str) else m
    except Exception:
        return False
    return m.get("outcome") == "ok" and m["lines2"] / max(1, m["lines"]) <= 4.6


MATCHERS = {"c10_decompiler_quadratic_in_jumps": _m_f37}

def extra_stage(ctx, driver, stats):
    """inputs on which the CPU-time limit fired while the executed lines and the peak allocation were inside the bound"""
    ctx.cov["undecided_slow_inputs"] = dict(count=len(UNDECIDED), examples=UNDECIDED[:5])
    if UNDECIDED:
        ctx.notes.append(f"{len(UNDECIDED)} inputs hit the {TIMEOUT_S} CPU-s limit inside their work bound: not decided")

