"""C13 — a decode result never depends on earlier calls, including failed ones.

Bitmap decoders (the only registry with per-call state: Decoder.bytesIo): call sequences of length <= 3 over a pool of
valid calls, every truncation of small images, unsupported depths, short custom palettes, raw 16-bit data, header overflow.
  line 0  `bitd seq 1 c1 c2 c3`  results of all calls + the content of every DECODERS[k].bytesIo afterwards   (C: model vs code)
  line 1  `bitd decode c3`       the last call alone on fresh decoder objects                                 (C)
  oracle  results[-1] of line 0 == line 1                                                                     (D: the property)
Sound / palette / score / cast decoders (no per-call state: theorem over Gen/SharedState.lean): extra stage, mixed sequences of
all kinds, result of the last call compared with its result in a fresh interpreter process.
"""
import io, json, os, subprocess, sys, itertools, hashlib
from pathlib import Path
from core import Case, canon, hx, Failure, REPO
import bitd_spec as S
import bitd_gen

PROP = "C13"
LEAN_MODULES = ["DrxProps.C13"]
FAMILIES = ["bitd"]
RULE = ("every sequence is run after re-executing the bitd2bmp module (new decoder objects and module-level names = a new process); the result of its last call must equal "
        "the result of that call alone (D), and results + the buffers left in all six DECODERS entries must equal the Lean "
        "model's DecState (C). Pool: valid 1/8/16/32-bit images (raw and packed), each truncated at every offset, depth 4, "
        "depth 2/24, short and long custom palettes, raw 16-bit, 32-bit length that triggers the raw test, header overflow, "
        "negative top offset. All singles and pairs, sampled triples (thorough: all triples of the reduced pool). "
        "Other registries: mixed sequences of sound/palette/score/cast/bitmap decodes against fresh-interpreter results. "
        "distinct_nontrivial = distinct sequences whose last call returned bytes.")
TRUSTED = ["harness/c13.py (pool; re-executing the registry module stands for a fresh process; spot-checked against real subprocesses)",
           "harness/bitd_gen.py: the ast walk that lists writes to self.<attr> outside __init__ and to module-level names",
           "io.BytesIO is modelled as an append-only byte list; struct.pack range checks as in lean/Drx/Bitd.lean",
           "correspondence is sampled over the stated pool"]
ASSUMPTIONS = ["width, height >= 0 (negative values are not generated; both offsets may be negative)", "logging ignored",
               "state reachable only through attributes of the registry instances (no C-level or closure state)"]


def gen_tables():
    d = {}
    d.update(bitd_gen.gen_bitd_tables())
    d.update(bitd_gen.gen_shared_state())
    import lscr_common
    d["Drx/Gen/DecoderState.lean"] = lscr_common.gen_module_state(DECODER_PACKAGES, "Drx.Gen.DecoderState")
    return d


# every package whose decoders the property is about (the Lingo decompiler is C12's)
DECODER_PACKAGES = ("bitd", "snd", "clut", "vwsc", "cast", "common", "stxt", "fmap", "key", "cas", "lctx", "vwlb", "vwcf", "riff", "dir")


# ---------------------------------------------------------------------------------------------- pool

def tok(c):
    return "%d,%d,%d,%d,%d,%s,%s,%s" % (c["depth"], c["W"], c["H"], c["ox"], c["oy"], c["pal"] or "-", hx(c["clut"]), hx(c["data"]))


def untok(t):
    d, W, H, ox, oy, pal, clut, data = t.split(",")
    B = lambda s: bytes.fromhex("" if s == "-" else s)
    return dict(depth=int(d), W=int(W), H=int(H), ox=int(ox), oy=int(oy), pal="" if pal == "-" else pal, clut=B(clut), data=B(data))


def call(depth, W, H, ox, oy, data, pal="systemMac", clut=b""):
    return dict(depth=depth, W=W, H=H, ox=ox, oy=oy, pal=pal, clut=clut, data=data)


def base_images(rng):
    out = {}
    def img(depth, W, H, ox, oy):
        w, h = W - ox, H - oy
        if depth == 1: f = lambda: rng.randrange(2)
        elif depth == 8: f = lambda: rng.randrange(1, 256)
        elif depth == 16: f = lambda: rng.randrange(1, 65536)
        else: f = lambda: [rng.randrange(1, 256) for _ in range(4)]
        return dict(depth=depth, W=W, H=H, ox=ox, oy=oy, pix=[[f() for _ in range(w)] for _ in range(h)])
    i1 = img(1, 11, 2, 1, 0); r1 = S.raw_rows(i1, 0xA5)
    out["1p"] = (i1, S.serialise_packed([S.seg_to_ops(r, [1]) for r in r1]))
    out["1r"] = (i1, b"".join(r1))
    i8 = img(8, 5, 2, 1, 0); r8 = S.raw_rows(i8, 0)
    out["8p"] = (i8, S.serialise_packed([S.seg_to_ops(r, [2]) for r in r8]))
    out["8r"] = (i8, b"".join(r8))
    i16 = img(16, 3, 2, 0, 0); r16 = S.raw_rows(i16)
    out["16p"] = (i16, S.serialise_packed([S.seg_to_ops(r, [3]) for r in r16]))
    i32 = img(32, 2, 2, 0, 0); r32 = S.raw_rows(i32)
    out["32p"] = (i32, S.serialise_packed([S.seg_to_ops(r, [2, 4, 6]) for r in r32]))
    return out


def pool(rng):
    """(name, call, reduced?)"""
    P = []
    for k, (im, data) in base_images(rng).items():
        c = call(im["depth"], im["W"], im["H"], im["ox"], im["oy"], data)
        P.append(("valid-" + k, c, True))
        for n in range(len(data)):
            P.append(("trunc-%s@%d" % (k, n), dict(c, data=data[:n]), n in (0, 1, len(data) // 2, len(data) - 1)))
    i8, d8 = base_images(rng)["8p"]
    c8 = call(8, i8["W"], i8["H"], i8["ox"], i8["oy"], d8)
    P.append(("depth4", call(4, 4, 2, 0, 0, bytes(4)), True))
    P.append(("depth4-mac", call(4, 4, 2, 0, 0, bytes(4), pal="systemMac"), False))
    P.append(("depth2", call(2, 4, 2, 0, 0, bytes(4)), True))
    P.append(("depth0", call(0, 1, 1, 0, 0, b""), False))
    P.append(("depth24", call(24, 2, 1, 0, 0, bytes([0x03, 1, 2, 3, 4, 0x03, 5, 6, 7, 8])), True))
    P.append(("shortpal8", dict(c8, clut=b"\x01\x02\x03"), True))
    P.append(("shortpal8-1023", dict(c8, clut=bytes(1023)), False))
    P.append(("longpal8", dict(c8, clut=bytes(range(256)) * 5), True))
    P.append(("pal8-unknown", dict(c8, pal="nosuch"), False))
    P.append(("pal8-numeric", dict(c8, pal="7"), False))
    P.append(("pal8-gray", dict(c8, pal="grayscale"), False))
    i1, d1 = base_images(rng)["1p"]
    c1 = call(1, i1["W"], i1["H"], i1["ox"], i1["oy"], d1)
    P.append(("shortpal1", dict(c1, clut=b"\x01\x02\x03"), True))
    P.append(("pal1-custom", dict(c1, clut=bytes(range(8))), False))
    P.append(("raw16", call(16, 2, 2, 0, 0, bytes(8)), True))
    P.append(("raw16-off", call(16, 3, 2, 1, 0, bytes(8)), False))
    P.append(("raw32-trigger", call(32, 2, 1, 0, 0, bytes([0xFD, 7, 0xFD, 7])), True))
    P.append(("overflow8", call(8, 50000, 50000, 0, 0, b""), True))
    P.append(("overflow16", call(16, 40000, 40000, 0, 0, b""), False))
    P.append(("neg-oy8", dict(c8, oy=-1), True))
    P.append(("big-oy8", dict(c8, oy=5), False))
    P.append(("big-ox8", dict(c8, ox=9), False))
    P.append(("empty8", call(8, 0, 0, 0, 0, b""), False))
    # negative left/top offsets (the record declares a canvas smaller than the image)
    P.append(("neg-ox8", call(8, c8["W"] - 2, c8["H"], c8["ox"] - 2, c8["oy"], c8["data"]), True))
    P.append(("neg-ox1", call(1, c1["W"] - 3, c1["H"], c1["ox"] - 3, c1["oy"], c1["data"]), False))
    P.append(("neg-ox16", call(16, 1, 2, -2, 0, bytes([0x05, 1, 2, 3, 4, 5, 6, 0x05, 7, 8, 9, 10, 11, 12])), True))
    P.append(("neg-ox32", call(32, 1, 1, -1, -1, bytes([0x07, 1, 2, 3, 4, 5, 6, 7, 8, 0x07, 1, 2, 3, 4, 5, 6, 7, 8])), False))
    P.append(("neg-ox8-shortpal", dict(call(8, c8["W"] - 2, c8["H"], c8["ox"] - 2, c8["oy"], c8["data"]), clut=b"\x01"), False))
    return P


def seq_case(names, calls, kind):
    toks = [tok(c) for c in calls]
    return Case(kind=kind, spec=dict(names=names), lines=["bitd seq 1 " + " ".join(toks), "bitd decode " + toks[-1]], expect=[None, None])


def cases(rng, tier):
    P = pool(rng)
    out = []
    for n, c, _ in P:
        out.append(seq_case([n], [c], "single"))
    for (n1, c1, _), (n2, c2, _) in itertools.product(P, P):
        out.append(seq_case([n1, n2], [c1, c2], "pair"))
    red = [(n, c) for n, c, r in P if r]
    if tier == "quick":
        for _ in range(1500):
            t = [rng.choice(P) for _ in range(3)]
            out.append(seq_case([x[0] for x in t], [x[1] for x in t], "triple"))
        for _ in range(500):
            t = [rng.choice(red) for _ in range(3)]
            out.append(seq_case([x[0] for x in t], [x[1] for x in t], "triple-reduced"))
    else:
        for t in itertools.product(red, red, red):
            out.append(seq_case([x[0] for x in t], [x[1] for x in t], "triple-reduced"))
        for _ in range(20000):
            t = [rng.choice(P) for _ in range(3)]
            out.append(seq_case([x[0] for x in t], [x[1] for x in t], "triple"))
    return out


# ---------------------------------------------------------------------------------------------- real code

_CODE = {}


def fresh_registry():
    """the state of a new process: every module of the bitmap package is executed again, base classes first (new decoder objects,
    new module-level names in decoder.py, the per-depth decoder modules and the registry module alike). Same effect as
    importlib.reload on each of them (the module's code runs again in the module's namespace); the compiled code objects are
    cached because PYTHONDONTWRITEBYTECODE makes reload() recompile the source every time."""
    import importlib, sys as _sys
    importlib.import_module("drxtract.bitd.bitd2bmp")
    names = sorted(n for n in _sys.modules if n.startswith("drxtract.bitd.") and _sys.modules[n] is not None)
    order = (["drxtract.bitd.decoder"] + [n for n in names if n not in ("drxtract.bitd.decoder", "drxtract.bitd.bitd2bmp")]
             + ["drxtract.bitd.bitd2bmp"])
    m = None
    for n in order:
        m = _sys.modules.get(n)
        if m is None:
            continue
        f = getattr(m, "__file__", None)
        if not f or not f.endswith(".py"):
            m = importlib.reload(m)
            continue
        if n not in _CODE:
            with open(f, "rb") as fh:
                _CODE[n] = compile(fh.read(), f, "exec")
        exec(_CODE[n], m.__dict__)
    return m


def run_call(m, c):
    cd = dict(height=c["H"], width=c["W"], depth=c["depth"], w_padding=c["ox"], h_padding=c["oy"], palette_txt=c["pal"])
    try:
        return bytes(m.bitd2bmp(cd, c["clut"], c["data"])).hex()
    except Exception:
        return "error"


def impl(case):
    out = []
    for line in case["lines"]:
        t = line.split()
        if t[1] == "seq":
            m = fresh_registry()
            res = [run_call(m, untok(x)) for x in t[3:]]
            st = {str(k): bytes(d.bytesIo.getvalue()).hex() for k, d in m.DECODERS.items()}
            out.append(canon({"results": res, "state": st}))
        elif t[1] == "decode":
            m = fresh_registry()
            out.append(canon(run_call(m, untok(t[2]))))
        else:
            out.append("bad-op")
    return out


def oracle(case, io_):
    try:
        seq = json.loads(io_[0]); alone = json.loads(io_[1])
    except Exception:
        return None
    if seq["results"][-1] != alone:
        return ("result of the last call depends on the calls before it: after %s the call returns %s..., alone it returns %s..."
                % (case["spec"].get("names"), str(seq["results"][-1])[:80], str(alone)[:80]))
    return None


def nontrivial(case, io_):
    try:
        return json.loads(io_[1]) != "error"
    except Exception:
        return False


MATCHERS = {}


# ---------------------------------------------------------------------------------------------- other registries

KIND_SRC = r'''
import sys, json, logging
logging.disable(logging.CRITICAL)
def canon(x):
    return json.dumps(x, sort_keys=True, separators=(",", ":"), ensure_ascii=True, default=lambda o: (bytes(o).hex() if isinstance(o, (bytes, bytearray)) else (vars(o) if hasattr(o, "__dict__") else repr(o))))
def run(kind, data, extra=None):
    try:
        if kind == "snd":
            from drxtract.snd import snd_to_sampled
            return canon(snd_to_sampled(data))
        if kind == "clut":
            from drxtract.clut import clut2palette
            return canon(clut2palette(data))
        if kind == "vwsc":
            from drxtract.vwsc import parse_vwsc_file_data
            return canon(parse_vwsc_file_data(data))
        if kind == "cast":
            from drxtract.cast import parse_cast_file_data
            return canon(parse_cast_file_data(data))
        if kind == "bitd":
            from drxtract.bitd.bitd2bmp import bitd2bmp
            cd, clut = extra
            return canon(bitd2bmp(cd, bytes.fromhex(clut), data))
    except Exception:
        return canon("error")
    return "bad-kind"
'''


def other_inputs(rng, tier):
    """(name, kind, data, extra)"""
    T = REPO / "tests" / "files"
    out = []
    def add(name, kind, data, extra=None, cuts=True):
        out.append((name, kind, data, extra))
        if cuts:
            n = len(data)
            for k in sorted({0, 1, n // 4, n // 2, n - 1} | ({rng.randrange(n)} if n else set())):
                if 0 <= k < n:
                    out.append(("%s[:%d]" % (name, k), kind, data[:k], extra))
            if n > 8:
                b = bytearray(data); p = rng.randrange(min(n, 64)); b[p] ^= 0xFF
                out.append(("%s^%d" % (name, p), kind, bytes(b), extra))
    for p in sorted((T / "snd").glob("*/*.snd_")):
        add("snd:" + p.stem, "snd", p.read_bytes())
    # synthetic sounds with every header kind (the fixtures are all standard-header 8-bit mono, which is also what a fresh
    # SampledSound holds: a sound object surviving from one decode to the next would not show with them alone): extended header
    # 16-bit stereo / 16-bit mono / 8-bit 3 channels, an extended header that raises part-way (12 bits), then standard ones
    import c07
    pcm = bytes(range(1, 25))
    add("snd:syn-ext16x2", "snd", c07.encode(c07.mk_spec(hdr=dict(ch=2, frames=6, bits=16), samples=pcm)), cuts=False)
    add("snd:syn-ext16x1", "snd", c07.encode(c07.mk_spec(hdr=dict(ch=1, frames=12, bits=16), samples=pcm, rate=44100)), cuts=False)
    add("snd:syn-ext8x3", "snd", c07.encode(c07.mk_spec(hdr=dict(ch=3, frames=8, bits=8), samples=pcm)), cuts=False)
    add("snd:syn-ext12-raises", "snd", c07.encode(c07.mk_spec(hdr=dict(ch=2, frames=6, bits=12), samples=pcm)), cuts=False)
    long16 = bytes((i * 5 + i // 253) % 256 for i in range(2 * 33000))        # > 32 768 frames / > 65 536 bytes: buffers that grow
    add("snd:syn-ext16-long", "snd", c07.encode(c07.mk_spec(hdr=dict(ch=1, frames=33000, bits=16), samples=long16)), cuts=False)
    add("snd:syn-std", "snd", c07.encode(c07.mk_spec(samples=pcm, rate=11127)), cuts=False)
    add("snd:syn-std-fmt1", "snd", c07.encode(c07.mk_spec(fmt=1, dts=[b"\x00\x05\x00\x00\x00\x80"], samples=pcm[:7])), cuts=False)
    for p in sorted((T / "clut").glob("*/*.CLUT")):
        add("clut:" + p.stem, "clut", p.read_bytes())
    for p in sorted((T / "vwsc").glob("*/*.VWSC")):
        add("vwsc:" + p.stem, "vwsc", p.read_bytes())
    # synthetic scores: frames whose deltas touch different parts of the channel buffer (a buffer that survives a call
    # would show through), both channel-record sizes
    import struct
    def score(frames, frame_size, channels=8):
        body = b""
        for deltas in frames:
            rec = b"".join(struct.pack(">hh", len(d), off) + d for off, d in deltas)
            body += struct.pack(">h", len(rec) + 2) + rec
        return struct.pack(">iiihhhh", 20 + len(body), 0x14, len(frames), 0, frame_size, channels, 0) + body
    def damaged(frame_size, channels=8):
        # a tolerated damaged record: its first delta announces more bytes than the record holds (the parser abandons the rest of
        # the record), followed by a well-formed delta that must therefore NOT be applied; then a normal frame
        bad = struct.pack(">hh", 50, 0) + b"\x01\x02" + struct.pack(">hh", 4, 44) + b"\x09\x09\x07\x01"
        rec1 = struct.pack(">h", len(bad) + 2) + bad
        good = struct.pack(">hh", 2, 2) + b"\x05\x06"
        rec2 = struct.pack(">h", len(good) + 2) + good
        body = rec1 + rec2
        return struct.pack(">iiihhhh", 20 + len(body), 0x14, 2, 0, frame_size, channels, 0) + body
    for fs in (20, 24):
        out.insert(0, ("vwsc:syn-damaged-%d" % fs, "vwsc", damaged(fs), None))
    for fs in (20, 24):
        add("vwsc:syn-full-%d" % fs, "vwsc", score([[(0, bytes(range(1, 41)))], [(40, bytes(range(41, 81)))]], fs), cuts=False)
        add("vwsc:syn-part-%d" % fs, "vwsc", score([[(44, b"\x09\x09\x07\x01")], []], fs), cuts=False)
        add("vwsc:syn-part2-%d" % fs, "vwsc", score([[(2, b"\x05")], [(3, b"\x06")]], fs), cuts=False)
        add("vwsc:syn-bad-%d" % fs, "vwsc", score([[(0, bytes(range(1, 41)))], [(500, b"\x01")]], fs), cuts=False)
        # a score that BEGINS with the 2-byte "same as the previous frame" record (legal: the initial, empty state) and one
        # that consists of such records only: whatever an earlier, possibly failed, decode left behind must not show in frame 1
        add("vwsc:syn-first-empty-%d" % fs, "vwsc", score([[], [(2, b"\x05")], []], fs), cuts=False)
        add("vwsc:syn-all-empty-%d" % fs, "vwsc", score([[], []], fs), cuts=False)
        # the same with OTHER channel counts: what the initial empty frame looks like depends on the score's own header
        add("vwsc:syn-first-empty-%d-ch3" % fs, "vwsc", score([[], [(2, b"\x05")], []], fs, channels=3), cuts=False)
        add("vwsc:syn-first-empty-%d-ch12" % fs, "vwsc", score([[], []], fs, channels=12), cuts=False)
        add("vwsc:syn-bad-late-%d" % fs, "vwsc", score([[(44, b"\x09\x09\x07\x01")], [(4, b"\x03")], [(0, b"\x01")] * 1 + [(900, b"\x01")]], fs), cuts=False)
    # CASt chunks out of the cast fixtures' movies
    try:
        from drxtract.riff.riff import parse_riff
        n = 0
        for p in sorted((T / "cast").glob("*/*/*.DIR")):
            d = p.read_bytes()
            order = "<" if d[:4] == b"XFIR" else ">"
            seen = 0
            for ch in parse_riff(d, 0, order).chunks:
                if ch.identifier == "CASt" and seen < 2:
                    add("cast:%s#%d" % (p.stem, seen), "cast", bytes(ch.data), cuts=(n < 6))
                    seen += 1; n += 1
            if n >= (12 if tier == "quick" else 60):
                break
    except Exception:
        pass
    # bitmap cast records whose palette numbers are neighbours (0, -1, -2, ...): a lookup cached under a shifted key shows
    # only when such records are decoded one after the other
    try:
        import c15
        for k, pal in enumerate([0, -1, -2, -3, -100, -101, 1, 2]):
            sp = dict(kind="bitmap", fields=[0, 0x82, 0, 0, 0, 4, 4, 0, 0, 4, 4, 0, 0], tail=[8, pal], pad="",
                      info=dict(sk=0, bd1=0, bd2=0, si=0, unknowns=[], extras=[]))
            out.insert(0, ("cast:bitmap-pal%d" % pal, "cast", c15.enc_d4(sp), None))
    except Exception:
        pass
    for p in sorted((T / "bitd").glob("*/*.BITD"))[:6 if tier == "quick" else 99]:
        if p.stat().st_size > 5000:
            continue
        cd = json.loads((p.parent / "data.json").read_text())
        add("bitd:" + p.stem, "bitd", p.read_bytes(), (cd, ""))
        add("bitd-shortpal:" + p.stem, "bitd", p.read_bytes(), (cd, "010203"), cuts=False)
    return out


def _fresh_process_results(inputs):
    """each input decoded in its own interpreter process: (kind, data) -> canonical result"""
    import concurrent.futures as cf
    src = KIND_SRC + "\nk, h, e = sys.argv[1], sys.argv[2], json.loads(sys.argv[3])\nsys.stdout.write(run(k, bytes.fromhex(h), e))\n"
    env = dict(os.environ, PYTHONPATH=str(REPO) + os.pathsep + os.environ.get("PYTHONPATH", ""), PYTHONDONTWRITEBYTECODE="1")
    def one(inp):
        name, kind, data, extra = inp
        if len(data) > 60000:   # argv limit: pass through stdin instead
            p = subprocess.run([sys.executable, "-c", KIND_SRC + "\nk, e = sys.argv[1], json.loads(sys.argv[2])\nsys.stdout.write(run(k, sys.stdin.buffer.read(), e))\n", kind, json.dumps(extra)],
                               input=data, stdout=subprocess.PIPE, stderr=subprocess.DEVNULL, env=env)
        else:
            p = subprocess.run([sys.executable, "-c", src, kind, data.hex(), json.dumps(extra)], stdout=subprocess.PIPE, stderr=subprocess.DEVNULL, env=env)
        return p.stdout.decode()
    with cf.ThreadPoolExecutor(16) as ex:
        return list(ex.map(one, inputs))


def extra_stage(ctx, driver, stats):
    """mixed sequences over all decoder kinds in this process vs fresh-interpreter results"""
    rng = ctx.rng
    inputs = other_inputs(rng, ctx.tier)
    if ctx.tier == "quick" and len(inputs) > 56:
        keep = [i for i in inputs if "[" not in i[0] and "^" not in i[0]]
        rest = [i for i in inputs if i not in keep]
        rng.shuffle(rest)
        inputs = keep[:32] + rest[:56 - min(32, len(keep))]
    base = _fresh_process_results(inputs)
    ns = {}
    exec(KIND_SRC, ns)
    run = ns["run"]
    n = len(inputs)
    bad = [i for i in range(n) if base[i] == canon("error")]
    good = [i for i in range(n) if base[i] not in (canon("error"), "", "bad-kind")]
    stats["other_inputs"] = n
    stats["other_inputs_failing"] = len(bad)
    stats["other_inputs_by_kind"] = {k: sum(1 for i in inputs if i[1] == k) for k in ("snd", "clut", "vwsc", "cast", "bitd")}
    if not good or any(b in ("", "bad-kind") for b in base):
        ctx.failures.append(Failure("H", None, None, "fresh-process baseline could not be computed for the other registries"))
        return
    seqs = []
    # every (failing, any) pair, every (any, good) pair, sampled triples
    for a in range(n):
        for b in range(n):
            if a in bad or b in good:
                seqs.append((a, b))
    rng.shuffle(seqs)
    seqs = seqs[:3000 if ctx.tier == "quick" else 40000]
    for _ in range(1500 if ctx.tier == "quick" else 20000):
        seqs.append((rng.randrange(n), rng.choice(bad) if bad else rng.randrange(n), rng.randrange(n)))
    compared = 0
    for s in seqs:
        # history in this process is everything run so far plus the prefix of s: that is the point
        for i in s[:-1]:
            run(inputs[i][1], inputs[i][2], inputs[i][3])
        last = s[-1]
        got = run(inputs[last][1], inputs[last][2], inputs[last][3])
        compared += 1
        if got != base[last]:
            names = [inputs[i][0] for i in s]
            cd = dict(kind="mixed-sequence", spec=dict(names=names), lines=[], expect=[])
            ctx.failures.append(Failure("D", cd, None, "result after the history %s differs from the result in a fresh process" % names,
                                        expected=base[last][:300], got=got[:300]))
            break
    stats["other_sequences_compared"] = compared
    # a LONG history of distinct things: 300 bitmap decodes that each name another palette (cast-member numbers without CLUT data,
    # unknown names), 300 sounds of distinct rates: a cache or table that saturates after N distinct entries (seeded change C13-m13:
    # a memo capped at 256 names) shows only after such a history. Then every good input once more against its fresh-process result.
    i8 = next((i for i in inputs if i[1] == "bitd" and i[3] and i[3][0].get("depth") == 8), None)
    if i8 is not None:
        for k in range(300):
            cast = dict(i8[3][0], palette_txt=str(1000 + k))
            run("bitd", i8[2], (cast, ""))
    import c07 as _c07
    for k in range(300):
        run("snd", _c07.encode(_c07.mk_spec(samples=b"\x01\x02\x03", rate=3000 + k)), None)
    long_cmp = 0
    if i8 is not None:
        # ... and bitmaps naming palettes that NO earlier call of this process has used (a saturated table treats new names differently)
        late = [("bitd:late-%s" % nm, "bitd", i8[2], (dict(i8[3][0], palette_txt=nm), "")) for nm in
                ("424242", "7", "pastels", "vivid", "NTSC", "metallic", "rainbow", "grayscale", "systemWinDir4", "systemWin", "never-heard-of")]
        base_late = _fresh_process_results(late)
        for it, b in zip(late, base_late):
            got = run(it[1], it[2], it[3])
            long_cmp += 1
            if got != b:
                cd = dict(kind="long-history", spec=dict(name=it[0]), lines=[], expect=[])
                ctx.failures.append(Failure("D", cd, None, "result of %s after a history of 300 bitmaps with distinct palette names differs from the result in a fresh process" % it[0],
                                            expected=b[:300], got=got[:300]))
                break
    for last in good:
        got = run(inputs[last][1], inputs[last][2], inputs[last][3])
        long_cmp += 1
        if got != base[last]:
            cd = dict(kind="long-history", spec=dict(name=inputs[last][0]), lines=[], expect=[])
            ctx.failures.append(Failure("D", cd, None, "result of %s after a history of 300 bitmaps with distinct palette names and 300 distinct sounds differs from the result in a fresh process" % inputs[last][0],
                                        expected=base[last][:300], got=got[:300]))
            break
    stats["long_history_compared"] = long_cmp
    # spot check: fresh decoder objects really behave like a fresh process for the bitmap pool
    P = [(nme, c) for nme, c, r in pool(__import__("random").Random(ctx.seed)) if r][:16 if ctx.tier == "quick" else 64]
    ins = [(nme, "bitd", c["data"], (dict(height=c["H"], width=c["W"], depth=c["depth"], w_padding=c["ox"], h_padding=c["oy"], palette_txt=c["pal"]), c["clut"].hex())) for nme, c in P]
    fp = _fresh_process_results(ins)
    for (nme, c), r in zip(P, fp):
        m = fresh_registry()
        mine = canon(run_call(m, c))
        if r != mine:
            ctx.failures.append(Failure("H", None, None, "fresh decoder objects differ from a fresh process on %s" % nme))
    stats["fresh_process_spot_checks"] = len(P)


if __name__ == "__main__":
    import core
    sys.exit(core.main("c13"))
