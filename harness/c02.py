"""C02 — decompiled Lingo denotes the compiled statements and expressions (straight-line handlers).

Pipeline per script (several handlers each):
  Python generates the program as an S-expression  ->  `lspec gen` (Lean: Spec.compile) gives Lscr + Lnam bytes, the canonical
  form of every handler and each handler's bytecode compiled in isolation  ->  the REAL decompiler
  generate_lingo_code(parse_lrcr_file_data(lscr, names)) emits Lingo text  ->  `lspec rt` (Lean: reference reader
  Spec.readLingo, then Spec.compile again) reads the text back and recompiles it.
  D: read-back handler == source handler (canonical S-expression), recompiled handler bytecode == original, header equal,
     whole recompiled Lscr == original Lscr.
"""
import itertools, json, os, random
from core import Case, canon, hx
import lingo_gen as L
from lingo_gen import S, sx

PROP = "C02"
LEAN_MODULES = ["DrxProps.C02", "DrxProps.C02b", "DrxProps.C02Link"]
FAMILIES = ["lspec", "lscr"]
RULE = ("programs are generated as source trees (lean/Drx/Spec/Ast.lean), compiled by the Lean compile scheme (validated against the 70 "
        "fixtures every run: coverage.scheme_validation), decompiled by the real code, and the emitted text is read back by the Lean "
        "reference reader (Appendix B precedence); one observable per handler = its canonical S-expression + its recompiled bytecode. "
        "distinct_nontrivial = distinct scripts on which the decompiler produced text for every handler. Exhaustive part: every "
        "(outer, inner, position) pair of the 19 binary + 2 unary operators + field at depth 2, several leaf assignments each.")
TRUSTED = ["lean/Drx/Spec/Compile.lean (compile scheme; anchored by fixture recompilation, see scheme_validation)",
           "lean/Drx/Spec/LingoRead.lean (reference reading of Lingo: DESIGN Appendix B)", "lean/Drx/Spec/Tables.lean (property numbering)",
           "harness/lingo_gen.py generators; the decompiler model is agent-lscr's (C11/C12): stage C here compares implementation with the SPEC"]
ASSUMPTIONS = ["names used as identifiers are ASCII identifiers and not reserved words", "string constants are printable ASCII without quote/backslash "
               "or exactly one of the six named constants (other bytes: property C11, findings F15-F18)",
               "object indices that are not a literal or a variable: F20; field-property assignment: F38; starts: F40 (open findings)"]

HANDLERS_PER_SCRIPT = 8

# ---------------------------------------------------------------------------------------------- building cases


def build_cases(scripts, kind_default="random"):
    """scripts: list of dict(tree=script tree, pre=[names], scr_num=int, kind=str). Compiles them with the Lean scheme (one batch)."""
    lines = [L.gen_line(sx(s["tree"]), s.get("pre", ()), s.get("scr_num", 0)) for s in scripts]
    outs = L.ask_parallel(lines)
    cases, rejected = [], 0
    for s, o in zip(scripts, outs):
        g = L.parse_gen(o)
        if "error" in g:
            rejected += 1
            continue
        tree = s["tree"]
        handlers = tree[4:]
        hn = "(handlers" + "".join(" " + L.sx_name(h[1]) for h in handlers) + ")"
        lines_c, expect = [], []
        for h, (hsx, hcode) in zip(handlers, g["handlers"]):
            hh = L.hexs(sx(h))
            lines_c.append(f"lspec hcanon {hh}"); expect.append(hsx)
            lines_c.append(f"lspec hcode {L.hexs(g['names_sx'])} {L.hexs(hn)} {hh}"); expect.append(hcode)
        lines_c.append(f"lspec scanon {L.hexs(sx(tree[:4] + [[h[0], h[1], []] for h in handlers]))}"); expect.append(g["header"])
        lines_c.append("lspec whole 0 - -"); expect.append("same")
        # correspondence of the MODEL of the decompiler (family lscr) on the same script: the real text must be the model's text
        lines_c.append(f"lscr lingo {g['lscr'] or '-'} {g['lnam'] or '-'}"); expect.append(None)
        spec = dict(script=sx(tree), pre=list(s.get("pre", ())), scr_num=s.get("scr_num", 0), lscr=g["lscr"], lnam=g["lnam"],
                    names_sx=g["names_sx"], features=[L.features(h, tree[3][1:], [x[1] for x in handlers]) for h in handlers], nhandlers=len(handlers))
        cases.append(Case(kind=s.get("kind", kind_default), spec=spec, lines=lines_c, expect=expect))
    return cases, rejected


# ---------------------------------------------------------------------------------------------- exhaustive operator pairs

OPS21 = [("b", o) for o in L.BINOPS] + [("u", o) for o in L.UNOPS] + [("fld", None)]

LEAFSETS = [
    [["l", "x"], ["p", "a"], ["i", 3]],
    [["i", 1], ["l", "y"], ["g", "gCount"]],
    [["s", S("ab")], ["l", "x"], ["s", S("c d")]],
    [["p", "b"], ["i", 200], ["l", "x"]],
    [["f", 25, 1], ["g", "gCount"], ["i", 0]],
]


def mk(op, args):
    if op[0] == "b":
        return ["b", op[1], args[0], args[1]]
    if op[0] == "u":
        return ["u", op[1], args[0]]
    return ["fld", args[0]]


def arity(op):
    return 2 if op[0] == "b" else 1


def pair_exprs():
    """every (outer, inner, position of inner in outer) at expression depth 2"""
    for outer in OPS21:
        for inner in OPS21:
            for pos in range(arity(outer)):
                yield outer, inner, pos


def pair_handlers(leafsets):
    out = []
    k = 0
    for outer, inner, pos in pair_exprs():
        for li, ls in enumerate(leafsets):
            inner_e = mk(inner, ls[:arity(inner)])
            args = [ls[2], ls[2]]
            args[pos] = inner_e
            e = mk(outer, args[:arity(outer)])
            ctx = (k + li) % 4
            if ctx == 0:
                body = [["set", ["l", "res"], e]]
            elif ctx == 1:
                body = [["call", "put", e]]
            elif ctx == 2:
                body = [["call", "return", e]]
            else:
                body = [["set", ["g", "gCount"], e], ["call", "doIt", ["i", 1], e]]
            out.append((["on", "h%d" % len(out), ["a", "b"]] + body, dict(outer=outer, inner=inner, pos=pos, leaf=li)))
        k += 1
    return out


def exhaustive_scripts(leafsets):
    hs = pair_handlers(leafsets)
    scripts = []
    for i in range(0, len(hs), HANDLERS_PER_SCRIPT):
        chunk = hs[i:i + HANDLERS_PER_SCRIPT]
        handlers = []
        for j, (h, _) in enumerate(chunk):
            h = list(h); h[1] = "h%d" % j
            handlers.append(h)
        scripts.append(dict(tree=["script", ["factory", "-"], ["props"], ["globals"]] + handlers, pre=[], kind="pairs-exhaustive"))
    return scripts


# ---------------------------------------------------------------------------------------------- instruction families x operand kinds

def family_scripts(rng):
    """every instruction family of the quantifier with every operand kind in every operand position (systematic, not random)"""
    g = L.Gen(rng)
    env = dict(params=["a", "b"], locals=["x", "y", "z"], globals=["gList", "gCount"], props=[], method=False)
    operands = [["i", 0], ["i", 7], ["i", 300], ["i", 70000], ["s", S("txt")], ["s", S("")], ["f", 15, 1], ["y", "alpha"], ["l", "x"], ["l", "z"],
                ["p", "b"], ["g", "gCount"], ["key", "ticks"], ["mov", "itemDelimiter"], ["the", "sys", 1], ["the", "special", 0],
                ["u", "neg", ["i", 1]], ["b", "add", ["l", "x"], ["i", 1]], ["c", "random", ["i", 10]], ["li", ["i", 1], ["i", 2]],
                ["ch", "word", ["i", 2], ["i", 0], ["l", "y"]], ["the", "sprite", 13, ["i", 1]], ["fld", ["i", 2]], ["op", "legCount", ["l", "y"]]]
    stmts = []
    for o in operands:
        big = o == ["i", 70000]
        zero = o == ["i", 0]
        stmts += [
            ["set", ["l", "y"], o], ["set", ["p", "a"], o], ["set", ["g", "gList"], o], ["set", ["mov", "itemDelimiter"], o],
            ["set", ["the", "sprite", 14, ["i", 1]], o], ["set", ["the", "cast", 2, ["i", 3]], o], ["set", ["the", "sys", 0x1b], o],
            ["set", ["the", "special", 5], o], ["set", ["the", "menuItem", 3, ["i", 1], ["i", 2]], o], ["set", ["the", "sound", 1, ["i", 1]], o],
            ["set", ["the", "video", 14, ["s", S("Fish.mov")]], o], ["set", ["op", "center", ["c", "cast", ["i", 1]]], o],
            ["put", "after", o, ["l", "x"]], ["put", "before", o, ["l", "x"]], ["put", "into", o, ["fld", ["i", 2]]], ["put", "after", o, ["fld", ["i", 2]]],
            ["put", "into", o, ["ch", "item", ["i", 2], ["i", 0], ["fld", ["i", 2]]]], ["put", "before", o, ["ch", "char", ["i", 1], ["i", 3], ["l", "x"]]],
            ["put", "after", o, ["ch", "word", ["i", 1], ["i", 0], ["g", "gList"]]],
            ["call", "put", o], ["call", "doIt", o, o], ["call", "return", o], ["mcall", ["l", "x"], "mPush", o], ["mcall", ["p", "a"], "mPush", o],
            ["mcall", ["g", "gList"], "mput", ["i", 1], o],
            ["set", ["l", "y"], ["c", "random", o]], ["set", ["l", "y"], ["c", "helper", o, ["i", 1]]], ["set", ["l", "y"], ["m", ["l", "x"], "mget", o]],
            ["set", ["l", "y"], ["li", o, ["i", 1], o]], ["set", ["l", "y"], ["pl", ["y", "name"], o, ["y", "zz9"], o]],
            ["set", ["l", "y"], ["fld", o]], ["set", ["l", "y"], ["the", "numChunks", 2, o]], ["set", ["l", "y"], ["the", "special", 13, o]],
            ["set", ["l", "y"], ["ch", "line", o if not zero else ["i", 1], ["i", 0], ["l", "x"]]], ["set", ["l", "y"], ["ch", "char", ["i", 1], o, ["l", "x"]]],
            ["set", ["l", "y"], ["ch", "item", ["i", 1], ["i", 0], o]], ["set", ["l", "y"], ["op", "hasTail", o if not big else ["i", 7]]],
            ["set", ["l", "y"], ["the", "field", 2, o]],
            ["del", ["ch", "word", o if not zero else ["i", 1], ["i", 0], ["fld", ["i", 2]]]], ["hil", ["ch", "word", ["i", 2], ["i", 0], ["fld", o]]],
        ]
    # object-index positions with literal / variable indices (non-literal ones: F20, generated separately)
    for idx in (["i", 1], ["i", 300], ["s", S("Fish.mov")], ["l", "x"], ["p", "a"], ["g", "gCount"]):
        for k in L.SPRITE_K:
            stmts.append(["set", ["l", "y"], ["the", "sprite", k, idx]])
        for k in L.CAST_K:
            stmts += [["set", ["l", "y"], ["the", "cast", k, idx]], ["set", ["l", "y"], ["the", "field", k, idx]], ["set", ["the", "cast", k, idx], ["i", 1]]]
        for k in L.VIDEO_K:
            stmts += [["set", ["l", "y"], ["the", "video", k, idx]], ["set", ["the", "video", k, idx], ["i", 1]]]
        for k in (1, 2, 3, 4):
            stmts += [["set", ["l", "y"], ["the", "menuItem", k, idx, ["i", 1]]], ["set", ["l", "y"], ["the", "menuItem", k, ["i", 2], idx]]]
        stmts += [["set", ["l", "y"], ["the", "menu", 1, idx]], ["set", ["l", "y"], ["the", "menu", 2, idx]], ["set", ["l", "y"], ["the", "sound", 1, idx]]]
    for k in L.SYS_K:
        stmts += [["call", "put", ["the", "sys", k]], ["set", ["the", "sys", k], ["i", 1]]]
    for k in range(0, 12):
        stmts.append(["call", "put", ["the", "special", k]])
    for k in (1, 2, 3):
        stmts.append(["call", "put", ["the", "count", k]])
    for n in L.KEY_NAMES:
        stmts.append(["call", "put", ["key", n]])
    for n in L.MOVIE_NAMES:
        stmts += [["call", "put", ["mov", n]], ["set", ["mov", n], ["i", 1]]]
    # chunk chains: every subset of {char, word, item, line} in slice order, with and without ranges, on each base
    kinds = ["char", "word", "item", "line"]
    for r in range(1, 5):
        for sub in itertools.combinations(kinds, r):
            for base in (["l", "x"], ["fld", ["i", 2]], ["g", "gList"], ["s", S("a b")]):
                e = base
                for k in reversed(sub):
                    e = ["ch", k, ["i", 2], ["i", 0] if k != "word" else ["i", 4], e]
                stmts.append(["set", ["l", "y"], e])
                if base[0] != "s":
                    stmts += [["put", "into", ["i", 1], e], ["del", e]]
                if base[0] == "fld":
                    stmts.append(["hil", e])
    # two slices (granularity not increasing): two 17 instructions
    stmts += [["set", ["l", "y"], ["ch", "word", ["i", 1], ["i", 0], ["ch", "char", ["i", 2], ["i", 5], ["l", "x"]]]],
              ["set", ["l", "y"], ["ch", "char", ["i", 1], ["i", 0], ["ch", "char", ["i", 2], ["i", 5], ["l", "x"]]]]]
    scripts = []
    per = 12
    hnames = L.handler_names(4, rng)
    for i in range(0, len(stmts), per * 3):
        handlers = []
        for j in range(3):
            body = stmts[i + j * per: i + (j + 1) * per]
            if body:
                handlers.append(["on", hnames[j], ["a", "b"], ["set", ["l", "x"], ["c", "birth2", ["i", 1]]]] + body)
        handlers.append(["on", "helper", ["a", "b"], ["call", "return", ["p", "a"]]])
        scripts.append(dict(tree=["script", ["factory", "-"], ["props"], ["globals", "gList"]] + handlers, pre=[], kind="families"))
    return scripts


# ---------------------------------------------------------------------------------------------- random scripts

def random_script(rng, depth_max=3, big=False):
    kind = rng.choice(["plain"] * 6 + ["props"] * 2 + ["factory"] * 2)
    g = L.Gen(rng, kind)
    if kind != "plain":
        g.props = rng.sample(L.PROPS, rng.choice([1, 2, 3]))
    g.globals_hdr = rng.sample(L.GLOBALS, rng.choice([0, 0, 1, 2]))
    n = rng.choice([1, 2, 3, 4, 6])
    names = L.handler_names(n, rng, kind == "factory")
    g.handlers = names
    handlers = []
    for nm in names:
        def body(env):
            k = rng.choice([1, 2, 3, 5, 8]) if not big else rng.choice([10, 20])
            out = []
            for _ in range(k):
                d = rng.randrange(0, depth_max + 1)
                if rng.random() < 0.06:
                    out.append(g.tell_stmt(env, min(d, 2)))
                else:
                    out.append(g.stmt(env, d))
            return out
        h = g.handler(nm, body)
        handlers.append(limit_features(h, rng, g))
    tree = g.script(handlers)
    return dict(tree=tree, pre=L.name_table(rng), scr_num=rng.choice([0, 0, 1, 7, 300, 32000, 32767]), kind="random-" + kind)


EXCEPTION_FEATURES = ()     # the decompiler raises: these get a script of their own (finding_scripts / exception_scripts)


def limit_features(h, rng, g, tries=6):
    """at most one known-defect feature per handler, so that a matcher never hides an unrelated failure in the same handler;
    none of the features on which the decompiler raises (they would hide the other handlers of the script)"""
    sg = g.globals_hdr
    ok = lambda hh: (lambda f: len(f) <= 1 and not any(x in EXCEPTION_FEATURES for x in f))([x for x in L.features(hh, sg, g.handlers) if x.startswith("F")])
    if ok(h):
        return h
    head, body = h[:3], h[3:]
    keep = []
    for st in body:
        if ok(head + keep + [st]):
            keep.append(st)
    return head + (keep or [["call", "nothing"]])


def wide_scripts(rng):
    """2-byte operand forms: list literal with >= 256 entries (83), call with >= 256 arguments (82), > 42 constants (84), ints >= 128 (81)"""
    out = []
    big_list = ["li"] + [["i", i % 100] for i in range(rng.choice([256, 257, 300]))]
    many_consts = ["li"] + [["s", S("s%d" % i)] for i in range(rng.choice([43, 44, 60]))]
    h1 = ["on", "wide1", ["a"], ["set", ["l", "x"], big_list], ["call", "put", ["l", "x"]]]
    h2 = ["on", "wide2", [], ["set", ["l", "x"], many_consts], ["call", "put", ["s", S("after")], ["i", 128], ["i", 32767], ["i", 32768], ["f", 3001, 3]]]
    h3 = ["on", "wide3", [], ["call", "doIt"] + [["i", i % 7] for i in range(256)]]
    h4 = ["on", "wide4", [], ["set", ["l", "x"], ["pl"] + [z for i in range(130) for z in (["y", "alpha"], ["i", i])]]]
    out.append(dict(tree=["script", ["factory", "-"], ["props"], ["globals"], h1, h2, h3, h4], pre=L.name_table(rng), kind="wide-operands"))
    # the same 2-byte-count forms NOT alone on the stack: other operands are pending below them (seeded change C02-m18: the entries
    # were taken with a slice and the BOTTOM of the stack was deleted instead of the top) — as a later argument, under an operator,
    # inside a call inside an operator, a long argument list after a pending operand, a long property list as second list element
    bl = lambda k: ["li"] + [["i", (i + k) % 100] for i in range(256 + k)]
    h5 = ["on", "wide5", ["a"], ["call", "put", ["i", 5], bl(0)], ["set", ["l", "x"], ["b", "add", ["i", 7], ["c", "count2", bl(1)]]],
          ["set", ["l", "x"], ["li", ["i", 9], bl(2), ["s", S("z")]]]]
    h6 = ["on", "wide6", [], ["set", ["l", "y"], ["b", "concat", ["s", S("n=")], ["c", "myFunc"] + [["i", i % 9] for i in range(257)]]],
          ["call", "put", ["s", S("k")], ["pl"] + [z for i in range(129) for z in (["y", "beta"], ["i", i])]]]
    out.append(dict(tree=["script", ["factory", "-"], ["props"], ["globals"], h5, h6], pre=L.name_table(rng), kind="wide-operands"))
    # many locals (offsets up to 246) and a long name table (indices up to 255)
    locs = ["v%d" % i for i in range(41)]
    body = [["set", ["l", v], ["i", i]] for i, v in enumerate(locs)] + [["call", "put", ["l", locs[-1]], ["l", locs[20]]],
            ["put", "after", ["s", S("x")], ["l", locs[-1]]], ["mcall", ["l", locs[30]], "mPush", ["i", 1]]]
    out.append(dict(tree=["script", ["factory", "-"], ["props"], ["globals"], ["on", "manyLocals", []] + body],
                    pre=["pad%d" % i for i in range(200)], kind="wide-operands"))
    return out


def _probe(body, pre=(), params=("a",), name="probe", props=(), hdr_globals=()):
    return dict(tree=["script", ["factory", "-"], ["props"] + list(props), ["globals"] + list(hdr_globals), ["on", name, list(params)] + body],
                pre=list(pre), kind="probe")


# one minimal handler per defect class, each in a script of its own (an exception then only affects its own lines).
# id -> script; these are also the stored replays corpus/C02/<id>.json (written by `python harness/c02.py mkcorpus`)
PROBES = {
    "f20_sprite_index_expr": _probe([["call", "put", ["the", "sprite", 13, ["b", "add", ["l", "i"], ["i", 1]]]]]),
    "f20_cast_index_unary": _probe([["call", "put", ["the", "cast", 1, ["u", "neg", ["i", 1]]]]]),
    "f20_set_index_call": _probe([["set", ["the", "sprite", 14, ["c", "random", ["i", 3]]], ["i", 10]]]),
    "f20_index_quote_constant": _probe([["call", "put", ["the", "cast", 11, ["s", S("\"")]]]]),
    "f21_double_minus": _probe([["set", ["l", "x"], ["u", "neg", ["u", "neg", ["l", "y"]]]]]),
    "f142_object_with_leading_underscore": _probe([["set", ["l", "x"], ["op", "foo", ["p", "_y"]]], ["set", ["l", "tell_obj"], ["i", 1]],
                                                   ["set", ["l", "x"], ["op", "foo", ["l", "tell_obj"]]], ["set", ["op", "bar", ["p", "_y"]], ["i", 3]],
                                                   ["set", ["l", "x"], ["op", "foo", ["l", "x"]]]], params=("_y",)),
    "f140_symbol_first_arg_of_list_function": _probe([["set", ["l", "x"], ["c", "getOne", ["y", "foo"], ["i", 3]]]]),
    "f22_nested_tell": _probe([["tell", ["c", "window", ["s", S("a")]], ["tell", ["c", "window", ["s", S("b")]], ["call", "updateStage"]], ["call", "beep"]]]),
    "f38_set_field_property": _probe([["set", ["the", "field", 6, ["i", 1]], ["s", S("right")]]]),
    "f39_chunk_put_second_local": _probe([["set", ["l", "x"], ["i", 1]], ["set", ["l", "y"], ["s", S("a,b")]],
                                          ["put", "into", ["s", S("me")], ["ch", "item", ["i", 2], ["i", 0], ["l", "y"]]]]),
    "f39_chunk_delete_second_local": _probe([["set", ["l", "x"], ["i", 1]], ["set", ["l", "y"], ["s", S("a,b")]],
                                             ["del", ["ch", "item", ["i", 1], ["i", 0], ["l", "y"]]]]),
    "f40_starts": _probe([["call", "put", ["b", "starts", ["s", S("Man")], ["s", S("M")]]]]),
    "f120_global_by_name_only": _probe([["put", "after", ["s", S("x")], ["ch", "item", ["i", 1], ["i", 0], ["g", "gList"]]]]),
    "f120_global_receiver_only": _probe([["mcall", ["g", "gObj"], "mReset"]]),
    "f121_pool_int_object": _probe([["set", ["l", "x"], ["op", "center", ["i", 70000]]]]),
    "f122_property_of_me": dict(tree=["script", ["factory", "makeStack"], ["props"], ["globals"],
                                      ["method", "mGet", [], ["call", "return", ["op", "center", "me"]]]], pre=[], kind="probe"),
    "f123_param_is_name0": _probe([["call", "return", ["p", "a"]]], pre=["a", "probe"]),
    "f124_symbol_loop": _probe([["set", ["l", "x"], ["y", "loop"]]]),
    "f124_the_ancestor": _probe([["set", ["l", "x"], ["mov", "ancestor"]]]),
    "f125_zero_arg_function": _probe([["set", ["l", "x"], ["c", "myFunc"]]]),
}


def finding_scripts():
    return [dict(v, probe=k) for k, v in PROBES.items()]


def mkcorpus():
    from core import VERIF
    cs, _ = build_cases(finding_scripts())
    d = VERIF / "corpus" / "C02"
    d.mkdir(parents=True, exist_ok=True)
    for (k, _), c in zip(PROBES.items(), cs):
        c.kind = "corpus-" + k
        (d / (k + ".json")).write_text(json.dumps(dict(case=dict(kind=c.kind, spec=c.spec, lines=c.lines, expect=c.expect)), indent=1))
    print("wrote", len(cs), "replays to", d)


def cases(rng, tier):
    n_random = dict(quick=700, thorough=12000, search=6000)[tier]
    leafsets = LEAFSETS[:2] if tier == "quick" else LEAFSETS
    scripts = []          # the defect probes are the corpus (corpus/C02/*.json), which core always runs first
    scripts += exhaustive_scripts(leafsets)
    if tier != "quick":
        scripts += family_scripts(rng)
    else:
        fs = family_scripts(rng)
        scripts += fs[::4]
    scripts += wide_scripts(rng)
    scripts += L.border_scripts(rng, tier)
    for i in range(n_random):
        scripts.append(random_script(rng, depth_max=3 if tier == "quick" else rng.choice([3, 4, 6]), big=(i % 50 == 0)))
    cs, rejected = build_cases(scripts)
    cases.rejected = rejected
    cases.last = cs
    return cs


# ---------------------------------------------------------------------------------------------- the real code

def impl(case):
    sp = case["spec"]
    n = len(case["lines"])
    model_line = case["lines"][-1].startswith("lscr lingo ")        # corpus replays predate the model line
    n0 = n - 1 if model_line else n
    try:
        text = L.decompile(L.B(sp["lscr"]), L.B(sp["lnam"]))["lingo"]
    except Exception:
        return [canon("error")] * n
    tail = [canon(text)] if model_line else []
    r = L.parse_rt(L.ask([L.rt_line(text, sp["names_sx"], sp.get("scr_num", 0))])[0])
    if "error" in r:
        return ["unreadable:" + r["error"][:60]] * n0 + tail
    out = []
    nh = sp["nhandlers"]
    for i in range(nh):
        if i < len(r["handlers"]):
            out += [r["handlers"][i][0], r["handlers"][i][1]]
        else:
            out += ["missing", "missing"]
    out.append(r["header"] if len(r["handlers"]) == nh else r["header"] + " +extra-handlers")
    exp = case.get("expect") or []
    handlers_equal = all(a == b for a, b in zip(out, exp))
    # recompilation clause for the whole container: only meaningful when every handler read back as the source
    out.append("same" if (not handlers_equal or r["whole"] == sp["lscr"]) else "different")
    return out + tail


def nontrivial(case, io):
    return not any(x in ('"error"', "missing") or x.startswith("unreadable") for x in io)


# ---------------------------------------------------------------------------------------------- known findings

def _handler_features(case, f):
    if f.line is None:
        return None
    i = f.line // 2
    fe = case["spec"]["features"]
    return fe[i] if i < len(fe) else None


def _text(case):
    try:
        return L.decompile(L.B(case["spec"]["lscr"]), L.B(case["spec"]["lnam"]))["lingo"]
    except Exception as e:
        return "EXC:" + type(e).__name__


def m_feature(case, f, params):
    """the failing line belongs to a handler whose ONLY known-defect feature is params['feature'] (generators keep at most one per handler)"""
    fe = _handler_features(case, f)
    if fe is None:
        return False
    known = [x for x in fe if x.startswith("F")]
    if known != [params["feature"]]:
        return False
    shape = params.get("shape")
    if shape == "exception":
        return f.got == canon("error")
    if shape:
        return shape in _text(case)
    return True


def m_script_exception(case, f, params):
    """the decompiler raised on a script that contains the feature (the exception hides every handler of that script)"""
    return f.got == canon("error") and any(params["feature"] in fe for fe in case["spec"]["features"]) and _text(case).startswith("EXC:" + params.get("exc", ""))


MATCHERS = {"c02_feature": m_feature, "c02_script_exception": m_script_exception}


def shrink(f):
    """reduce a failing multi-handler script to the one failing handler (others kept as empty stubs so local-call numbering is unchanged)"""
    import core
    case = f.case
    if f.line is None or case["spec"]["nhandlers"] <= 1 or f.line // 2 >= case["spec"]["nhandlers"]:
        return f
    # re-parse our own S-expression is not needed: rebuild from the stored script text by asking the driver for nothing; keep it simple:
    return f


def extra_stage(ctx, driver, stats):
    v = L.validate_scheme()
    ctx.cov["scheme_validation"] = dict(v, explained={
        "call_fn_ext_glb.Lscr / gv_as_sym.Lscr / factory0.Lscr": "call through `58 01` on a name (factory / list global) that only the movie context identifies; not derivable from the script text, outside the scheme's fragment",
        "field_props.Lscr": "F38: the expected text says `of cast` where the bytecode sets a field property (5d 0b)",
        "string_op.Lscr": "F40: the expected text says `start`, which is not a Lingo operator (unreadable)",
        "timeout.Lscr": "string constant containing QUOTE/RETURN is printed as a `&` expression (C11, F15-F18)"})
    stats["rejected_by_scheme"] = getattr(cases, "rejected", 0)
    # bounded companion of theorem read_print_expr: reference printer -> text -> strict reference reader on every generated script
    # (covers the constructs the theorem's fragment leaves out: the-forms, method calls, statements, token -> text -> token)
    cs_all = getattr(cases, "last", [])
    outs = L.ask_parallel(["lspec printread " + L.hexs(c.spec["script"]) for c in cs_all])
    bad = [(c, o) for c, o in zip(cs_all, outs) if o != "same"]
    ctx.cov["printer_reader_roundtrip"] = dict(scripts=len(cs_all), same=len(cs_all) - len(bad))
    for c, o in bad[:3]:
        from core import Failure
        ctx.failures.append(Failure("C", None, None, "reference printer / reader disagree (spec layer): " + (o or "")[:60] + " on " + c.spec["script"][:300]))
    if v["rate"] < 0.9:
        from core import Failure
        ctx.failures.append(Failure("C", None, None, "compile scheme no longer reproduces the fixtures: " + json.dumps(v["not_reproduced"])[:400]))
    stats["exhaustive"] = 1


if __name__ == "__main__":
    import core, sys
    if sys.argv[1:2] == ["mkcorpus"]:
        import logging; logging.disable(logging.CRITICAL)
        mkcorpus(); sys.exit(0)
    sys.exit(core.main("c02"))
