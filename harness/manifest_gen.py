"""writes MANIFEST.json from the table below (run: /venv/bin/python harness/manifest_gen.py)"""
import json, sys
from pathlib import Path
VERIF = Path(__file__).resolve().parent.parent
props = {json.loads(l)["id"]: json.loads(l) for l in (VERIF / "properties.jsonl").read_text().splitlines() if l.strip()}

# id -> (technique, level text, level note, design ref)
CLAIMED = {}
NOT_YET = {}
for f in sorted((VERIF / "harness" / "manifest.d").glob("*.py")):
    exec(f.read_text())

# only properties the coordinator has integrated (committed, green on the unchanged tree) are claimed
ENABLED = (VERIF / "harness" / "manifest.d" / "ENABLED").read_text().split()
CLAIMED = {k: v for k, v in CLAIMED.items() if k in ENABLED}
checks = []
for pid in sorted(CLAIMED):
    t = CLAIMED[pid]
    checks.append(dict(
        property_id=pid,
        quick_cmd=f"./check {pid} --tier quick",
        thorough_cmd=f"./check {pid} --tier thorough",
        evidence_file=f"evidence/{pid}.json",
        replay_cmd_template=f"./check {pid} --replay {{path}}",
        engine="lean4-proof+correspondence",
        level_claimed=dict(category="proof", text=t["text"], design_ref=t["ref"]),
        level_note=t["note"],
        technique=t["technique"],
    ))
na = [dict(property_id=p, reason=NOT_YET.get(p, "not yet built in this round: no theorem and no check exists for it, so it is not claimed (see DESIGN.md section 8 for the plan)")) for p in sorted(props) if p not in CLAIMED]
m = dict(
    version=1,
    setup_cmd="./setup.sh",
    hooks=dict(guard="SYSTEM25_DRXTRACT_VERIF", enable="no hooks are needed: the harness observes the real code in-process by ordinary introspection",
               baseline_off_cmd="cd /repo && /venv/bin/python -m pytest -ra -q -p no:cacheprovider --timeout=900", source_commits=[], add_only=True),
    engines=[dict(name="lean4-proof+correspondence", path="lean/ + harness/", serves_properties=sorted(CLAIMED),
                  kind_free_text="Lean 4 models (lean/Drx), theorems (lean/DrxProps), tables regenerated from /repo (lean/Drx/Gen), compiled model driver compared with the real Python code in-process (harness/)")],
    checks=checks,
    notes="Every check: regenerate tables from /repo -> lake build theorems + driver, #print axioms audit -> model vs implementation correspondence -> property evaluated on the implementation (failing-input search) -> known findings. See DESIGN.md.",
    not_applicable=na,
)
(VERIF / "MANIFEST.json").write_text(json.dumps(m, indent=1))
print("claimed:", sorted(CLAIMED), "unclaimed:", [x["property_id"] for x in na])
