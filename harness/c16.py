"""C16 — text members keep their characters, styles and fonts (stxt, fmap, DRX_ENCODING)."""
import os, struct
from core import Case, canon, hx

PROP = "C16"
LEAN_MODULES = ["DrxProps.C16"]
FAMILIES = ["text"]
RULE = ("spec objects (styled text: gap before the data offset, text bytes over all byte values, 0..many 20-byte style records with "
        "arbitrary field values incl. the skipped ones, a font map with missing ids; font map: used fonts with arbitrary name bytes "
        "and padding, unused capacity slots with arbitrary contents, name-area prefix) under every configured DRX_ENCODING are "
        "encoded by the harness AND by the Lean encoders the theorems are about (enc* lines must be byte-identical), decoded by the "
        "real parse_stxt_data/parse_fmap_data and by the Lean model; expected values come from the spec object. A pipeline line "
        "feeds the decoded font map into the text decoder as stxt2json does. A second stream truncates/mutates the bytes (model vs "
        "implementation only). distinct_nontrivial = distinct spec objects on which the implementation returned a non-error result.")
TRUSTED = ["harness/c16.py encoders + expectations (Python), tied to lean/Drx/TextSpec.lean by the enc* lines of every case",
           "correspondence is sampled (generator quality bounds it)",
           "CPython struct/slicing/negative indexing/bytes.decode/%-formatting are modelled in lean/Drx/Py.lean, PyI.lean, Codec.lean "
           "(codec tables dumped from the running interpreter; strict UTF-8 decoder hand-written), not verified"]
TRUSTED += ["harness/gen_idx_layouts.py: ast translator of the readers' struct.unpack / int(buf[i]) / slice reads, loop counts, entry positions and strides into lean/Drx/Gen/TextLayouts.lean (refuses statement forms it does not recognise); theorems tie every generated field list and shape to the model",
            "loop rounds of the real readers are counted with sys.monitoring (harness/idx_steps.py) and compared with the Lean counting twins (lean/Drx/IdxSteps.lean)"]
ASSUMPTIONS = ["DRX_ENCODING in {mac_roman, latin_1, cp1252, ascii, utf_8}", "data offset + text length < 2^31", "style run count < 32768",
               "a font map with duplicate ids is read 'last entry wins' (the property does not say which; such maps are compared "
               "model-vs-implementation only)", "logging ignored"]

CODECS = ["mac_roman", "latin_1", "cp1252", "ascii", "utf_8", "default"]   # "default": DRX_ENCODING unset (get_encoding() falls back to mac_roman)


def pyc(codec):
    return "mac_roman" if codec == "default" else codec


def setenc(codec):
    if codec == "default":
        os.environ.pop("DRX_ENCODING", None)
    else:
        os.environ["DRX_ENCODING"] = codec


# ---------------------------------------------------------------------------------------------- stage G

def gen_tables():
    import gen_idx_layouts
    return gen_idx_layouts.gen_text_layouts()         # field layouts + shapes of parse_stxt_data / parse_fmap_data


def r32(rng):
    return rng.choice([0, 1, -1, 2 ** 31 - 1, -2 ** 31, rng.randrange(1, 2000), rng.randrange(-2 ** 31, 2 ** 31)])


def r16(rng):
    return rng.choice([0, 1, -1, 2 ** 15 - 1, -2 ** 15, rng.randrange(1, 600), rng.randrange(-2 ** 15, 2 ** 15)])


def rbytes(rng, n):
    return bytes(rng.randrange(256) for _ in range(n))


def rtext(rng, maxlen):
    n = rng.choice([0, 1, 2, 5, 255, 256, rng.randrange(0, 40), rng.randrange(0, maxlen + 1)])
    n = min(n, maxlen)
    r = rng.random()
    if r < 0.45:
        return bytes(rng.choice(b"abcdefghijklmnopqrstuvwxyzABCDEFGHIJKLMNOPQRSTUVWXYZ0123456789 .,\r\t") for _ in range(n))
    if r < 0.6:
        return "".join(rng.choice("aé€😀ñ中z\r") for _ in range(n)).encode("utf-8")[:maxlen]
    return rbytes(rng, n)


def decode_or_none(b, codec):
    try:
        return b.decode(pyc(codec))
    except UnicodeDecodeError:
        return None


def rfontname(rng):
    return rng.choice(["Arial", "Geneva", "", "Times New Roman", "Ünïcødé €", "a\"b\\c", "中文", "x" * 40, "\x7f\x01", "😀"])


# styled text ------------------------------------------------------------------------------------

def spec_font(fontmap, fid):
    hit = [n for i, n in fontmap if i == fid]
    return hit[-1] if hit else "unknown_%d" % fid


def rrun(rng, ids):
    return dict(u2=r16(rng), start=r16(rng), u4=r16(rng), u5=r16(rng), fid=rng.choice(ids) if rng.random() < 0.8 else r16(rng),
                fmt=rng.choice([0, 1, 2, 3, 4, 5, 6, 7, 8, 0xF8, 0xFF, rng.randrange(256)]), u7=rng.randrange(256), size=r16(rng),
                rgb=[rng.choice([0, 255, rng.randrange(256)]) for _ in range(6)])


def enc_run(r):
    return struct.pack(">5hBBh6B", r["u2"], r["start"], r["u4"], r["u5"], r["fid"], r["fmt"], r["u7"], r["size"], *r["rgb"])


def run_tok(r):
    return ":".join(map(str, [r["u2"], r["start"], r["u4"], r["u5"], r["fid"], r["fmt"], r["u7"], r["size"]] + r["rgb"]))


def run_want(r, fontmap):
    return dict(color="#%02X%02X%02X" % (r["rgb"][0], r["rgb"][2], r["rgb"][4]), start=r["start"], bold=bool(r["fmt"] & 1),
                italic=bool(r["fmt"] & 2), underline=bool(r["fmt"] & 4), font_size=r["size"], font_family=spec_font(fontmap, r["fid"]))


def enc_stxt(gap, text, fds, runs, tail):
    return (struct.pack(">iii", 12 + len(gap), len(text), fds) + gap + text + struct.pack(">h", len(runs)) +
            b"".join(enc_run(r) for r in runs) + tail)


def fm_tok(fontmap):
    return ",".join("%d:x%s" % (i, n.encode("utf-8").hex()) for i, n in fontmap) or "-"


def rfontmap(rng, ids, dup):
    fm, used = [], set()
    for _ in range(rng.choice([0, 1, 2, 4, 7])):
        i = rng.choice(ids) if rng.random() < 0.85 else r16(rng)
        if not dup and i in used:
            continue
        used.add(i)
        fm.append((i, rfontname(rng)))
    if dup and fm:
        fm.append((fm[0][0], rfontname(rng)))
        fm.insert(0, (fm[-1][0], rfontname(rng)))
    return fm


def stxt_case(rng, codec=None, text=None, nruns=None, dup=False, kind=None):
    codec = codec or rng.choice(CODECS)
    ids = [rng.randrange(-3, 30) for _ in range(4)] + [0, -1, 32767, -32768]
    text = rtext(rng, 1500) if text is None else text
    nruns = rng.choice([0, 1, 2, 3, rng.randrange(0, 25), rng.randrange(0, 25), rng.randrange(0, 200)]) if nruns is None else nruns
    runs = [rrun(rng, ids) for _ in range(nruns)]
    gap = rbytes(rng, rng.choice([0, 0, 0, 1, 2, 20]))
    fds = rng.choice([20 * nruns + 2, r32(rng)])
    tail = rbytes(rng, rng.choice([0, 0, 1, 19, 20, 33]))
    fontmap = rfontmap(rng, ids, dup)
    data = enc_stxt(gap, text, fds, runs, tail)
    t = decode_or_none(text, codec)
    want = "error" if t is None else dict(text=t, txt_format=[run_want(r, fontmap) for r in runs])
    lines = [f"text encstxt {hx(gap)} x{text.hex()} {fds} {','.join(run_tok(r) for r in runs) or '-'} {hx(tail)}",
             f"text stxt {codec} {fm_tok(fontmap)} {hx(data)}"]
    return Case(kind=kind or ("stxt-dupfont" if dup else "stxt"),
                spec=dict(codec=codec, text=text.hex(), nruns=nruns, gap=len(gap), fontmap=[[i, n] for i, n in fontmap], hexes=[hx(data), None]),
                lines=lines, expect=[None, None if dup else canon(want)])


# font map ---------------------------------------------------------------------------------------

def rfonts(rng, n=None):
    n = rng.choice([0, 1, 1, 2, 3, rng.randrange(0, 12), rng.randrange(0, 60)]) if n is None else n
    fonts = []
    for _ in range(n):
        name = rtext(rng, 300) if rng.random() < 0.3 else rng.choice([b"Arial", b"Geneva", b"Times", b"", b"caf\x8e", b"\xff\x00\x80", "中".encode()])
        fonts.append(dict(id=r16(rng) if rng.random() < 0.3 else rng.randrange(-3, 30), u=r16(rng), name=name, pad=rbytes(rng, rng.choice([0, 0, 1, 3]))))
    return fonts


def enc_fmap(hdr, fonts, unused, htail, bpre, btail):
    off, meta, names = len(bpre), b"", b""
    for f in fonts:
        meta += struct.pack(">ihh", off, f["u"], f["id"])
        rec = struct.pack(">i", len(f["name"])) + f["name"] + f["pad"]
        names += rec; off += len(rec)
    slots = b"".join(struct.pack(">ihh", *s) for s in unused)
    hd = (struct.pack(">4hii6h", hdr[0], hdr[1], hdr[2], hdr[3], len(fonts), len(fonts) + len(unused), *hdr[4:]) + meta + slots + htail)
    bd = bpre + names + btail
    return struct.pack(">ii", len(hd), len(bd)) + hd + bd


def fmap_parts(rng, fonts=None):
    fonts = rfonts(rng) if fonts is None else fonts
    unused = [(r32(rng), r16(rng), r16(rng)) for _ in range(rng.choice([0, 0, 1, 2, 5]))]
    hdr = [r16(rng) for _ in range(10)]
    htail = rbytes(rng, rng.choice([0, 0, 0, 2, 8]))
    bpre = rng.choice([b"", bytes(18), rbytes(rng, 18), rbytes(rng, rng.randrange(0, 5))])
    btail = rbytes(rng, rng.choice([0, 0, 1, 7]))
    return hdr, fonts, unused, htail, bpre, btail


def fmap_line(parts):
    hdr, fonts, unused, htail, bpre, btail = parts
    ft = ",".join("%d:%d:x%s:x%s" % (f["id"], f["u"], f["name"].hex(), f["pad"].hex()) for f in fonts) or "-"
    ut = ",".join("%d:%d:%d" % s for s in unused) or "-"
    return f"text encfmap {':'.join(map(str, hdr))} {ft} {ut} {hx(htail)} {hx(bpre)} {hx(btail)}"


def fmap_want(fonts, codec):
    dec = [decode_or_none(f["name"], codec) for f in fonts]
    return "error" if any(x is None for x in dec) else [dict(name=d, id=f["id"]) for d, f in zip(dec, fonts)]


def fmap_case(rng, codec=None, fonts=None, kind="fmap"):
    codec = codec or rng.choice(CODECS)
    parts = fmap_parts(rng, fonts)
    data = enc_fmap(*parts)
    lines = [fmap_line(parts), f"text fmap {codec} {hx(data)}"]
    return Case(kind=kind, spec=dict(codec=codec, nfonts=len(parts[1]), unused=len(parts[2]), fonts=[[f["id"], f["name"].hex()] for f in parts[1]],
                                     hexes=[hx(data), None]), lines=lines, expect=[None, canon(fmap_want(parts[1], codec))])


def pipeline_case(rng):
    """font map chunk -> parse_fmap_data -> parse_stxt_data(…, fontmap), as stxt2json does"""
    codec = rng.choice(CODECS)
    fonts = rfonts(rng, rng.choice([0, 1, 2, 5]))
    # distinct ids so that the expected family is unambiguous
    seen, uniq = set(), []
    for f in fonts:
        if f["id"] not in seen:
            seen.add(f["id"]); uniq.append(f)
    fonts = uniq
    parts = fmap_parts(rng, fonts)
    fdata = enc_fmap(*parts)
    ids = [f["id"] for f in fonts] + [99, -7]
    text = rtext(rng, 300)
    runs = [rrun(rng, ids) for _ in range(rng.choice([0, 1, 3, 8]))]
    sdata = enc_stxt(b"", text, 0, runs, b"")
    fw = fmap_want(fonts, codec)
    t = decode_or_none(text, codec)
    if fw == "error" or t is None:
        want = "error"
    else:
        fm = [(f["id"], f["name"]) for f in fw]
        want = dict(text=t, txt_format=[run_want(r, fm) for r in runs])
    return Case(kind="pipeline", spec=dict(codec=codec, nfonts=len(fonts), nruns=len(runs), text=text.hex(), hexes=[None]),
                lines=[f"text pipeline {codec} {hx(fdata)} {hx(sdata)}"], expect=[canon(want)])


def byte_texts(rng):
    """every single byte value as a one-character text and as a one-character font name under every configured codec"""
    out = []
    for codec in CODECS:
        for v in range(256):
            out.append(stxt_case(rng, codec, bytes([v]), nruns=1, kind="byte-stxt"))
            out.append(fmap_case(rng, codec, [dict(id=3, u=0, name=bytes([v]), pad=b"")], kind="byte-fmap"))
    return out


def mutated_cases(rng, n):
    out = []
    for i in range(n):
        c = stxt_case(rng) if i % 2 == 0 else fmap_case(rng)
        toks = c.lines[1].split()
        data = bytearray(bytes.fromhex("" if toks[-1] == "-" else toks[-1]))
        r = rng.random()
        if r < 0.4:
            data = data[:rng.randrange(0, len(data) + 1)]
        elif r < 0.85 and len(data) >= 12:
            # adversarial header word: sizes/offsets/counts incl. negative ones (Python negative indexing paths)
            if i % 2 == 0:
                p = rng.choice([0, 4, 8])
            else:
                p = rng.choice([0, 4, 16, 20, 36, 44])
            v = rng.choice([0, 1, -1, -2, -4, -20, -22, 12, 7, len(data), -len(data), len(data) - 2, 2 ** 31 - 1, -2 ** 31, 3, 200])
            if p + 4 <= len(data):
                data[p:p + 4] = struct.pack(">i", v)
            if i % 2 == 1 and rng.random() < 0.5 and len(data) >= 8:
                # keep the two sizes consistent with the length so that the body is reached
                hs = struct.unpack(">i", data[0:4])[0]
                data[4:8] = struct.pack(">i", max(-2 ** 31, min(2 ** 31 - 1, len(data) - 8 - hs)))
        else:
            for _ in range(3):
                if data:
                    data[rng.randrange(len(data))] = rng.randrange(256)
        toks[-1] = hx(bytes(data))
        out.append(Case(kind="mutated-" + c.kind, spec=dict(of=c.kind, hex=toks[-1][:3000], hexes=[None]), lines=[" ".join(toks)], expect=[None]))
    return out


def negative_offset_cases(rng, n):
    """the same chunks addressed from the end: data offset / displacements made negative (Python negative slicing and indexing)"""
    out = []
    for i in range(n):
        if i % 2 == 0:
            c = stxt_case(rng)
            toks = c.lines[1].split()
            data = bytearray(bytes.fromhex(toks[-1]))
            if rng.random() < 0.7:
                data += b"\x00"
            idxb = struct.unpack(">i", data[0:4])[0] - len(data)
            data[0:4] = struct.pack(">i", idxb)
            toks[-1] = hx(bytes(data))
            out.append(Case(kind="neg-stxt", spec=dict(idxb=idxb, of=c.spec, hexes=[None]), lines=[" ".join(toks)], expect=[None]))
        else:
            parts = list(fmap_parts(rng))
            hdr, fonts, unused, htail, bpre, btail = parts
            if rng.random() < 0.7:
                btail += b"\x00"
            data = bytearray(enc_fmap(hdr, fonts, unused, htail, bpre, btail))
            bdlen = struct.unpack(">i", data[4:8])[0]
            for k in range(len(fonts)):
                p = 8 + 28 + 8 * k
                d = struct.unpack(">i", data[p:p + 4])[0] - bdlen
                data[p:p + 4] = struct.pack(">i", d)
            codec = rng.choice(CODECS)
            out.append(Case(kind="neg-fmap", spec=dict(nfonts=len(fonts), codec=codec, hexes=[None]), lines=[f"text fmap {codec} {hx(bytes(data))}"], expect=[None]))
    return out


def hostile_cases(rng, n):
    """inputs that declare far more than they contain, or whose displacements make font names overlap (C10 support)"""
    out = []
    big = [2 ** 31 - 1, 2 ** 15 - 1, 10 ** 6]
    for i in range(n):
        k = i % 3
        if k == 0:      # stxt: huge run count
            text = rtext(rng, 20)
            data = struct.pack(">iii", 12, len(text), 0) + text + struct.pack(">h", 32767) + rbytes(rng, rng.randrange(0, 70))
            line = f"text stxt latin_1 - {hx(data)}"
        elif k == 1:    # fmap: huge capacity / font count
            nf, cap = rng.choice(big + [0, 1, 3]), rng.choice(big + [0, 1, 3])
            hd = struct.pack(">4hii6h", 0, 0, 0, 0, nf, cap, 0, 0, 0, 0, 0, 0) + rbytes(rng, 8 * rng.randrange(0, 4))
            bd = struct.pack(">i", 3) + b"abc"
            data = struct.pack(">ii", len(hd), len(bd)) + hd + bd
            line = f"text fmap latin_1 {hx(data)}"
        else:           # fmap: every font's name is (part of) the same bytes: rejected since F52 once the names exceed the area
            m = rng.randrange(1, 30)
            area = rbytes(rng, rng.randrange(0, 120))
            bd = struct.pack(">i", rng.choice([len(area), len(area) // 2, 1, 0])) + area
            hd = struct.pack(">4hii6h", 0, 0, 0, 0, m, m, 0, 0, 0, 0, 0, 0) + b"".join(struct.pack(">ihh", rng.choice([0, 0, 0, 4]), 0, j) for j in range(m))
            data = struct.pack(">ii", len(hd), len(bd)) + hd + bd
            line = f"text fmap latin_1 {hx(data)}"
        out.append(Case(kind="hostile", spec=dict(k=k, hex=hx(data)[:400], hexes=[None]), lines=[line], expect=[None]))
    return out


def steps_line(line, rng):
    t = line.split()
    if t[1] == "stxt":
        return f"text steps stxt {t[4]} {t[2]} {rng.choice([0, 0, 1, 3])}"
    if t[1] == "fmap":
        return f"text steps fmap {t[3]} {t[2]}"
    return None


def with_steps(cs, rng, every=1):
    for i, c in enumerate(cs):
        if i % every:
            continue
        extra = [sl for sl in (steps_line(l, rng) for l in list(c.lines)) if sl]
        c.lines = list(c.lines) + extra
        c.expect = list(c.expect) + [None] * len(extra)
        if "hexes" in c.spec:
            c.spec["hexes"] = list(c.spec["hexes"]) + [None] * len(extra)
    return cs


def cases(rng, tier):
    n = dict(quick=(2000, 2000, 1000, 400, 4000), thorough=(30000, 30000, 10000, 4000, 40000), search=(15000, 15000, 5000, 0, 0))[tier]
    out = byte_texts(rng)
    for k in (0, 1, 2, 199, 200, 1000):
        out.append(stxt_case(rng, nruns=k, kind="stxt-size"))
    out += [stxt_case(rng) for _ in range(n[0])]
    out += [fmap_case(rng) for _ in range(n[1])]
    out += [pipeline_case(rng) for _ in range(n[2])]
    out += [stxt_case(rng, dup=True) for _ in range(n[3])]
    with_steps(out, rng, every=8)
    out += with_steps(mutated_cases(rng, n[4]), rng)
    out += with_steps(negative_offset_cases(rng, n[3]), rng)
    out += with_steps(hostile_cases(rng, n[3]), rng)
    return out


# ---------------------------------------------------------------------------------------------- real code

def _J(f):
    try:
        return canon(f())
    except Exception:
        return canon("error")


def impl(case):
    from drxtract.stxt.stxt import parse_stxt_data
    from drxtract.fmap.fmap import parse_fmap_data, FontInfo
    B = lambda s: bytes.fromhex("" if s == "-" else s)
    out = []
    hexes = case["spec"].get("hexes", [])
    tf = lambda t: dict(text=t["text"], txt_format=[dict(x) for x in t["txt_format"]])
    for li, line in enumerate(case["lines"]):
        t = line.split()
        cmd = t[1]
        if cmd.startswith("enc"):
            out.append(hexes[li] if li < len(hexes) else None)
        elif cmd == "steps":
            import idx_steps
            setenc(t[4] if len(t) > 4 else "default")
            if t[2] == "stxt":
                nf = int(t[5]) if len(t) > 5 else 0
                fm = [FontInfo("f%d" % i, 1000 + i) for i in range(nf)]
                out.append(str(idx_steps.count_rounds("drxtract.stxt.stxt", "parse_stxt_data", lambda: parse_stxt_data(B(t[3]), fm))))
            elif t[2] == "fmap":
                out.append(str(idx_steps.count_rounds("drxtract.fmap.fmap", "parse_fmap_data", lambda: parse_fmap_data(B(t[3])))))
            else:
                out.append("bad-op")
        elif cmd == "stxt":
            setenc(t[2])
            fm = []
            if t[3] != "-":
                for it in t[3].split(","):
                    i, n = it.split(":")
                    fm.append(FontInfo(bytes.fromhex(n[1:]).decode("utf-8"), int(i)))
            out.append(_J(lambda: tf(parse_stxt_data(B(t[4]), fm))))
        elif cmd == "fmap":
            setenc(t[2])
            out.append(_J(lambda: [dict(f) for f in parse_fmap_data(B(t[3]))]))
        elif cmd == "pipeline":
            setenc(t[2])
            out.append(_J(lambda: tf(parse_stxt_data(B(t[4]), parse_fmap_data(B(t[3]))))))
        else:
            out.append("bad-op")
    os.environ.pop("DRX_ENCODING", None)
    return out


def extra_stage(ctx, driver, stats):
    # the finite space the quantifier names (every byte value as a one-character text / font name under every configured
    # encoding, incl. the unset default) is enumerated completely in both tiers
    stats["exhaustive"] = 1
    stats["enumerations"] = {"single_byte_texts": "256 x %d encodings x {text,font name}" % len(CODECS)}


def nontrivial(case, io):
    return not case["kind"].startswith("mutated") and not any(x == '"error"' for x in io)


MATCHERS = {}

if __name__ == "__main__":
    import core, sys
    sys.exit(core.main("c16"))
