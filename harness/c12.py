"""C12 — decompiler output does not depend on what was generated or parsed before.

Driver lines (family lscr, see lean/Drx/Drv/Lscr.lean):
  lscr lingo <lscr> <lnam>                 text of a fresh parse + generate_lingo_code            (JSON string, "error" on exception)
  lscr js    <lscr> <lnam>                 likewise generate_js_code
  lscr hist  <prog> <lscr0> <lnam0> ...    one simulated process; prog = comma separated ops: p<i> parse script i, l, j
                                           -> JSON array: "ok"/"error" for a parse, the text/"error" for a generation
  lscr snap  <prog> <lscr0> <lnam0> ...    registers (non-zero operand registers of the opcode singletons) and deep snapshot
                                           of the current tree after prog, started from a fresh process
The real code runs in a worker process that has decompiled arbitrary other scripts before (dirty registers); `hist` lines
do NOT reset anything, `lingo`/`js`/`snap` lines first put the opcode singletons' registers back to their import-time value
(0) — the only module-level state the inventory finds; a sample of fixtures is additionally run in really fresh processes.
"""
import itertools, json, os, random, subprocess, sys
from core import Case, canon, hx, REPO
import lscr_common as L

PROP = "C12"
LEAN_MODULES = ["DrxProps.C12"]
FAMILIES = ["lscr"]
RULE = ("histories over {parse, generate-Lingo, generate-JS}: every sequence of length <=4 that starts with a parse on every fixture "
        "script (expected texts = the repo's own .lingo/.js files), on the embedded game scripts and on generated programs (expected = "
        "the implementation's own fresh output, registers reset), ordered pairs of scripts in one process, tree + register snapshots "
        "against the model. distinct_nontrivial = distinct (script, history) objects on which some generation returned text.")
TRUSTED = ["harness/lscr_common.py assembler + random program generator (Python)", "the in-process notion of 'fresh' (registers reset to 0) "
           "is anchored by really fresh subprocesses on a sample of fixtures each run",
           "CPython str methods / repr(float) / unicode_escape are modelled in lean/Drx/Lscr/PyStr.lean, Float.lean, Const.lean, not verified",
           "correspondence is sampled (generator quality bounds it)"]
ASSUMPTIONS = ["DRX_ENCODING unset (mac_roman)", "Python object sharing is modelled as copying: programs in which the peek opcode (0x64) shares a "
               "Symbol or an argument list that is later mutated by opcode 0x58/0x67 are not generated",
               "exception kinds are not compared (every exception is \"error\")"]

OPS = "plj"


def gen_tables():
    return L.gen_lscr_tables()


def all_progs(maxlen=4):
    """every op sequence of length <= maxlen over {p0, l, j} that starts with the parse"""
    out = []
    for n in range(1, maxlen + 1):
        for t in itertools.product(OPS, repeat=n - 1):
            out.append(",".join(["p0"] + ["p0" if c == "p" else c for c in t]))
    return out


PROGS = all_progs()


def expected_hist(prog, texts):
    """texts: {i: (lingo, js)} expected fresh texts per script index"""
    out, cur = [], None
    for op in prog.split(","):
        if op[0] == "p":
            cur = int(op[1:]); out.append("ok")
        else:
            t = texts[cur][0 if op == "l" else 1]
            out.append(t)
    return out


def hist_case(kind, label, scripts, progs, texts=None, snaps=()):
    """scripts: [(lscr, lnam)]; texts: expected fresh texts or None (then the oracle uses the implementation's own fresh output)"""
    hexes = " ".join(f"{hx(l)} {hx(n)}" for l, n in scripts)
    lines, expect = [], []
    for i, (l, n) in enumerate(scripts):
        lines += [f"lscr lingo {hx(l)} {hx(n)}", f"lscr js {hx(l)} {hx(n)}"]
        expect += [canon(texts[i][0]) if texts and texts[i][0] is not None else None, canon(texts[i][1]) if texts and texts[i][1] is not None else None]
    for p in progs:
        lines.append(f"lscr hist {p} {hexes}")
        expect.append(canon(expected_hist(p, texts)) if texts and all(a is not None and b is not None for a, b in texts.values()) else None)
    for p in snaps:
        lines.append(f"lscr snap {p} {hexes}")
        expect.append(None)
    return Case(kind=kind, spec=dict(label=label, nscripts=len(scripts), progs=len(progs)), lines=lines, expect=expect)


def cases(rng, tier):
    out = []
    fx = L.fixture_bytes()
    games = L.game_scripts()
    nrand = dict(quick=1800, thorough=15000, search=6000)[tier]
    npairs = dict(quick=800, thorough=8000, search=2500)[tier]
    progs_other = PROGS if tier != "quick" else [p for p in PROGS if len(p.split(",")) <= 3] + rng.sample([p for p in PROGS if len(p.split(",")) == 4], 8)
    # 1. every history on every fixture, expected = the repo's own expected files
    for stem, l, n, el, ej in fx:
        out.append(hist_case("fixture", stem, [(l, n)], PROGS, {0: (el, ej)}, snaps=["p0", "p0,l", "p0,j", "p0,l,j,l"]))
    # 2. game scripts
    for lab, l, n in games:
        out.append(hist_case("game", lab, [(l, n)], progs_other, None, snaps=["p0", "p0,l,j"]))
    # 3. generated programs
    hist = {}
    for i in range(nrand):
        l, n, spec = L.rand_script(rng, hist=hist)
        ps = rng.sample(PROGS, 6) if tier == "quick" else rng.sample(PROGS, 14)
        c = hist_case("generated", f"rand{i}", [(l, n)], ps, None, snaps=["p0", rng.choice(["p0,l", "p0,j,l", "p0,l,j"])])
        c.spec.update(spec)
        out.append(c)
    # 3b. malformed stream: truncated / byte-flipped / field-overwritten scripts (model vs implementation and the history property)
    nmut = dict(quick=400, thorough=8000, search=3000)[tier]
    base = [(l, n) for _s, l, n, _a, _b in fx] + [(l, n) for _lab, l, n in games]
    for i in range(nmut):
        if rng.random() < 0.5:
            l, n = base[rng.randrange(len(base))]
        else:
            l, n, _sp = L.rand_script(rng, hist=hist)
        l = bytearray(l); n = bytearray(n)
        r = rng.random()
        if r < 0.25 and len(l) > 4:
            l = l[:rng.randrange(0, len(l))]
            if len(l) >= 16 and rng.random() < 0.7:          # keep the size fields consistent so that the header check passes
                l[8:12] = len(l).to_bytes(4, "big"); l[12:16] = len(l).to_bytes(4, "big")
        elif r < 0.55 and len(l) > 92:
            for _ in range(rng.choice([1, 1, 2, 4])):
                l[rng.randrange(16, len(l))] = rng.randrange(256)
        elif r < 0.8 and len(l) > 92:
            off = rng.choice([48, 64, 66, 70, 72, 76, 78, 82, 90])    # header counts / offsets
            l[off:off + 2] = rng.choice([0, 1, -1, 0x7FFF, -0x8000, len(l), len(l) - 1, rng.randrange(-300, 300)]).to_bytes(2, "big", signed=True)
        elif len(n) > 20:
            if rng.random() < 0.5:
                n = n[:rng.randrange(0, len(n))]
            else:
                n[rng.randrange(16, len(n))] = rng.randrange(256)
        out.append(hist_case("mutated", f"mut{i}", [(bytes(l), bytes(n))], rng.sample(PROGS, 3), None, snaps=["p0"]))
    # 4. ordered pairs of scripts in one process
    pool = [(s, l, n, (el, ej)) for s, l, n, el, ej in fx] + [(lab, l, n, None) for lab, l, n in games]
    pairs = [(a, b) for a in range(len(pool)) for b in range(len(pool))]
    rng.shuffle(pairs)
    pair_progs = ["p0,l,j,p1,l,j", "p0,p1,l,j", "p0,j,p1,l", "p0,l,p1,j,l", "p1,j,p0,l,j"]
    for a, b in pairs[:npairs]:
        sa, sb = pool[a], pool[b]
        texts = {0: sa[3], 1: sb[3]} if sa[3] and sb[3] and all(x is not None for x in sa[3] + sb[3]) else None
        out.append(hist_case("pair", f"{sa[0]}+{sb[0]}", [(sa[1], sa[2]), (sb[1], sb[2])], rng.sample(pair_progs, 2), texts))
    for _ in range(npairs // 4):
        l0, n0, _s = L.rand_script(rng, hist=hist)
        sb = pool[rng.randrange(len(pool))]
        out.append(hist_case("pair-generated", f"rand+{sb[0]}", [(l0, n0), (sb[1], sb[2])], rng.sample(pair_progs, 2), None))
    # 4b. pairs of generated scripts over ONE small name table (the scripts of a movie share their names: the same name is a
    # symbol in one script and a method selector, global or handler name in the other)
    small = [b"put", b"x", b"y", b"me", b"mNew", b"mDo", b"loop", b"next", b"gList", b"count", b"getAt", b"return", b"new", b"go", b"cast", b"sound"]
    for _ in range(npairs // 2):
        nm = list(small); rng.shuffle(nm)
        l0, n0, _s = L.rand_script(rng, hist=hist, names=nm)
        l1, n1, _s = L.rand_script(rng, hist=hist, names=nm)
        out.append(hist_case("pair-shared-names", "rand+rand", [(l0, n0), (l1, n1)], rng.sample(pair_progs, 2), None))
    # 4c. beyond the small bounds: handlers nested 17 / 20 / 40 levels deep (anything kept per indentation level, per nesting depth),
    # twice from one tree and after another deep script; and pairs of same-shape scripts whose first constant is a string of
    # 255 / 256 / 300 / 70 000 bytes at the same file address (anything remembered per address / length across scripts)
    def nested(depth, tag):
        # built from the inside out: `if <d> then ... end if` = 41 d 95 <len of the rest + 3>
        inner = bytes([0x41, tag % 100 + 1, 0x52, 0x00])                                     # set x = n
        for d in range(depth):
            inner = bytes([0x41, 1 + d % 100, 0x95]) + (len(inner) + 3).to_bytes(2, "big") + inner
        return L.build_lscr([dict(name=0, args=[], locals=[1], code=inner + b"\x01")]), L.build_lnam([b"deep", b"x"])
    deep = [nested(17, 1), nested(20, 2), nested(40, 3), nested(16, 4)]
    for i, (l, n) in enumerate(deep):
        out.append(hist_case("scale-deep", f"deep{i}", [(l, n)], ["p0,l,l", "p0,l,j,l", "p0,j,l,j", "p0,l,p0,l"], None, snaps=["p0"]))
    for a in range(len(deep)):
        b = (a + 1) % len(deep)
        out.append(hist_case("scale-deep-pair", f"deep{a}+deep{b}", [deep[a], deep[b]], pair_progs, None))
    # 4d. one Symbol node printed at two places of the same handler (the peek opcode 0x64 duplicates the stack ENTRY, not the node):
    # `put #loop` followed by `go loop` / `go next` / `go previous` / a call of another handler on the SAME node; a generator that
    # writes into a node while printing it shows at the node's other place in a later generation (seeded change C12-m2 of round 14)
    for word in (b"loop", b"next", b"previous", b"marker"):
        for callee in (b"go", b"put", b"play"):
            nmt = [b"h", b"put", callee, word]
            code = bytes([0x45, 0x03, 0x64, 0x00, 0x42, 0x01, 0x57, 0x01, 0x42, 0x01, 0x57, 0x02, 0x01])
            code2 = bytes([0x45, 0x03, 0x64, 0x00, 0x42, 0x01, 0x57, 0x02, 0x42, 0x01, 0x57, 0x01, 0x01])      # the other order
            for k, cd in enumerate((code, code2)):
                sc = (L.build_lscr([dict(name=0, args=[], locals=[], code=cd)]), L.build_lnam(nmt))
                out.append(hist_case("peek-shared-symbol", f"{callee.decode()}-{word.decode()}-{k}", [sc], ["p0,l,l", "p0,l,j,l", "p0,j,l,l", "p0,l,l,j", "p0,l,p0,l"], None, snaps=["p0", "p0,l"]))
    def with_string(nbytes, fill):
        consts = [("s", bytes([fill]) * nbytes), ("i", 5)]
        code = bytes([0x44, 0x00, 0x42, 0x01, 0x57, 0x01, 0x01])
        return L.build_lscr([dict(name=0, args=[], locals=[], code=code)], consts), L.build_lnam([b"h", b"put"])
    for nb in (255, 256, 300, 4000) + ((70000,) if tier != "quick" else ()):
        sa, sb = with_string(nb, 0x41), with_string(nb, 0x42)
        out.append(hist_case("scale-long-strings", f"str{nb}", [sa, sb], pair_progs, None))
    cases.hist = hist
    return out


# ---------------------------------------------------------------------------------------------- the real code

def _reset_registers():
    from drxtract.lingosrc.opcodes import OPCODES, BI_OPCODES, TRI_OPCODES
    for d in (OPCODES, BI_OPCODES, TRI_OPCODES):
        for o in d.values():
            if hasattr(o, "param1"): o.param1 = 0
            if hasattr(o, "param2"): o.param2 = 0


def _registers():
    from drxtract.lingosrc.opcodes import OPCODES
    out = []
    for k, o in OPCODES.items():
        p1, p2 = getattr(o, "param1", 0), getattr(o, "param2", 0)
        if (p1, p2) != (0, 0):
            out.append([k, p1, p2])
    return sorted(out)


LEAFS = {"Node", "LocalVariable", "GlobalVariable", "PropertyName", "DefinedPropertyName", "ParameterName", "DateTimeFunction", "Menu",
         "MenuItem", "SoundChannel", "Sprite", "SystemObject", "Cast", "ConstantValue", "ExitRepeat"}


def snap_node(n):
    if n is None:
        return None
    c = type(n).__name__
    nm, pos = n.name, n.position
    S = snap_node
    if c in LEAFS: return [c, nm, pos]
    if c == "Symbol": return [c, nm, pos, n.use_hash]
    if c == "UnaryOperation": return [c, nm, pos, S(n.operand)]
    if c == "BinaryOperation": return [c, nm, pos, S(n.left), S(n.right)]
    if c == "SpAssignOperation": return [c, nm, pos, S(n.left), S(n.right), n.mode]
    if c == "StringOperation": return [c, nm, pos, S(n.start), S(n.end), S(n.of)]
    if c == "UnaryStringOperation": return [c, nm, pos, n.type.value if n.type is not None else None, S(n.of)]
    if c == "PropertyAccessorOperation": return [c, nm, pos, S(n.obj), n.prop, bool(n.explicit_obj)]
    if c == "KeyPropertyAccessorOperation": return [c, nm, pos, n.prop]
    if c == "MenuitemAccessorOperation": return [c, nm, pos, S(n.menu), S(n.item)]
    if c == "MenuitemsAccessorOperation": return [c, nm, pos, S(n.menu)]
    if c == "LoadListOperation": return [c, nm, pos, [S(x) for x in n.operands]]
    if c in ("ToListOperation", "ToDictionaryOperation"): return [c, nm, pos, S(n.operand)]
    if c == "Statement": return [c, nm, pos, S(n.code)]
    if c == "CallFunction": return [c, nm, pos, S(n.parameters), n.use_parenthesis, n.in_tell_operation, n.with_result, S(n.receiver)]
    if c == "CallMethod": return [c, nm, pos, S(n.object), S(n.parameters)]
    if c == "RepeatOperation": return [c, nm, pos, n.end_position, S(n.condition), [S(x) for x in n.statements_list], n.type, S(n.start), n.varname, n.sign, S(n.variable)]
    if c == "IfThenOperation": return [c, nm, pos, S(n.condition), [S(x) for x in n.if_statements_list], [S(x) for x in n.else_statements_list]]
    if c == "JumpOperation": return [c, nm, pos, n.address]
    if c == "JzOperation": return [c, nm, pos, S(n.condition), n.address]
    if c == "WindowTellOperation": return [c, nm, pos, S(n.operand), [S(x) for x in n.statements], n.closed]
    raise ValueError("unknown node class " + c)


def snap_script(s):
    return dict(properties=list(s.properties), global_vars=list(s.global_vars), scr_num=s.scr_num, cont_scr_num=s.cont_scr_num,
                factory_name=s.factory_name,
                functions=[dict(name=f.name, pos=f.position, params=[snap_node(x) for x in f.parameters], locals=[snap_node(x) for x in f.local_vars],
                                globals=[snap_node(x) for x in f.global_vars], stmts=[snap_node(x) for x in f.statements], is_method=f.is_method)
                           for f in s.functions])


def _run_prog(prog, scripts):
    """(outputs, tree, any_error)"""
    from drxtract.lingosrc.parse import parse_lnam_file_data, parse_lrcr_file_data
    from drxtract.lingosrc.codegen import generate_lingo_code, generate_js_code
    tree, outs, err = None, [], False
    for op in prog.split(","):
        try:
            if op[0] == "p":
                l, n = scripts[int(op[1:])]
                tree = None
                tree = parse_lrcr_file_data(l, parse_lnam_file_data(n))
                outs.append("ok")
            elif tree is None:
                outs.append("error"); err = True
            elif op == "l":
                outs.append(generate_lingo_code(tree))
            else:
                outs.append(generate_js_code(tree))
        except RecursionError:
            raise
        except Exception:
            outs.append("error"); err = True
    return outs, tree, err


def impl(case):
    L._quiet()
    out = []
    B = lambda s: bytes.fromhex("" if s == "-" else s)
    for line in case["lines"]:
        t = line.split()
        cmd = t[1]
        if cmd in ("lingo", "js"):
            _reset_registers()
            r = (L.py_lingo if cmd == "lingo" else L.py_js)(B(t[2]), B(t[3]))
            out.append(canon(r if r is not None else "error"))
        elif cmd in ("hist", "snap"):
            hexes = [B(x) for x in t[3:]]
            scripts = list(zip(hexes[0::2], hexes[1::2]))
            if cmd == "snap":
                _reset_registers()
            outs, tree, err = _run_prog(t[2], scripts)
            if cmd == "hist":
                out.append(canon(outs))
            elif err or tree is None:
                out.append(None)       # partially mutated tree / registers of a failed parse are not modelled
            else:
                out.append(canon(dict(regs=_registers(), tree=snap_script(tree))))
        else:
            out.append("bad-op")
    return out


def oracle(case, io):
    """the property on the implementation's own outputs: every generation in a history equals the fresh generation of that script"""
    ns = case["spec"]["nscripts"]
    fresh = {}
    for i in range(ns):
        fresh[i] = (json.loads(io[2 * i]), json.loads(io[2 * i + 1]))
    if case["kind"] == "scale-long-strings":
        # the "fresh" generations of one case run in ONE worker process, one after the other: for these pairs what each script must
        # print is known from the way it was built (a run of one letter), whatever ran before it
        nb = int(case["spec"]["label"][3:])
        for i, letter in ((0, "A"), (1, "B")):
            for lang in (0, 1):
                t = fresh[i][lang]
                if t != "error" and (letter * nb not in t or ("B" if letter == "A" else "A") * 8 in t):
                    return f"script {i} (a {nb}-byte string of '{letter}') is printed with another script's text"
    for li, line in enumerate(case["lines"]):
        t = line.split()
        if t[1] != "hist" or io[li] is None:
            continue
        outs = json.loads(io[li])
        cur = None
        for op, o in zip(t[2].split(","), outs):
            if op[0] == "p":
                cur = int(op[1:])
                continue
            want = fresh[cur][0 if op == "l" else 1]
            if o != want:
                return f"history {t[2]}: output of op '{op}' on script {cur} differs from the fresh generation"
    return None


def nontrivial(case, io):
    return any(x is not None and x not in ('"error"',) and not x.startswith("[") for x in io[:2])


def extra_stage(ctx, driver, stats):
    """anchor: really fresh processes (one per fixture and language) produce the repo's expected files"""
    fx = L.fixture_pairs()
    rng = random.Random(ctx.seed)
    pick = fx if ctx.tier != "quick" else rng.sample(fx, 6)
    code = ("import sys,logging;logging.disable(50);sys.path.insert(0,%r);"
            "from drxtract.lingosrc.parse import parse_lnam_file, parse_lrcr_file;"
            "from drxtract.lingosrc.codegen import generate_lingo_code, generate_js_code;"
            "s=parse_lrcr_file(sys.argv[2], parse_lnam_file(sys.argv[1]));"
            "sys.stdout.buffer.write((generate_lingo_code(s) if sys.argv[3]=='l' else generate_js_code(s)).encode('utf-8'))") % str(REPO)
    procs = []
    for lnam, lscr, stem in pick:
        for lang, ext in (("l", "lingo"), ("j", "js")):
            exp = L.FIXDIR / f"{stem}.{ext}"
            if exp.exists():
                procs.append((stem, ext, exp, subprocess.Popen([sys.executable, "-c", code, str(L.FIXDIR / lnam), str(L.FIXDIR / lscr), lang],
                                                                 stdout=subprocess.PIPE, stderr=subprocess.DEVNULL)))
    bad = 0
    from core import Failure
    for stem, ext, exp, p in procs:
        o, _ = p.communicate()
        if o != exp.read_bytes():
            bad += 1
            ctx.failures.append(Failure("D", dict(kind="fresh-process", spec=dict(label=stem, ext=ext), lines=[], expect=[]), None,
                                        f"fresh process output for {stem}.{ext} differs from the repo's expected file"))
    # model breadth: how many of the repo's decompiler fixtures does the Lean model reproduce byte for byte (both languages)?
    fxb = L.fixture_bytes()
    lines = []
    for stem, l, n, el, ej in fxb:
        lines += [f"lscr lingo {hx(l)} {hx(n)}", f"lscr js {hx(l)} {hx(n)}"]
    outs = driver.ask(lines)
    both = 0
    for i, (stem, l, n, el, ej) in enumerate(fxb):
        okl = el is None or outs[2 * i] == canon(el)
        okj = ej is None or outs[2 * i + 1] == canon(ej)
        both += 1 if (okl and okj) else 0
    stats["model_reproduces_fixtures"] = f"{both}/{len(fxb)}"
    gs = L.game_scripts()
    glines = []
    for lab, l, n in gs:
        glines += [f"lscr lingo {hx(l)} {hx(n)}", f"lscr js {hx(l)} {hx(n)}"]
    gouts = driver.ask(glines)
    gok = 0
    for i, (lab, l, n) in enumerate(gs):
        pl, pj = L.py_lingo(l, n), L.py_js(l, n)
        gok += 1 if (gouts[2 * i] == canon(pl if pl is not None else "error") and gouts[2 * i + 1] == canon(pj if pj is not None else "error")) else 0
    stats["model_reproduces_game_scripts"] = f"{gok}/{len(gs)}"
    stats["fresh_processes"] = len(procs)
    stats["fresh_process_mismatches"] = bad
    stats["opcode_histogram"] = dict(sorted(getattr(cases, "hist", {}).items(), key=lambda kv: -kv[1])[:80])
    stats["exhaustive"] = 1 if ctx.tier != "quick" else 0


MATCHERS = {}

if __name__ == "__main__":
    import core
    sys.exit(core.main("c12"))
