"""C04 — emitted JavaScript is valid and denotes the same program as the Lingo.

Same program space as C02 and C03, for the three script kinds (plain handlers, scripts with properties, factories).
Per script: Lean `toJs` (the translator's fixed correspondences, lean/Drx/Spec/JsRead.lean) gives the JavaScript tree the program denotes;
the REAL generate_js_code(parse_lrcr_file_data(...)) text is read by the Lean JavaScript-subset reader (JavaScript's own grouping rules).
  D per handler: readJs(function text) == toJs(handler);  per script: class line + wrapper functions equal, whole text valid.
Thorough tier additionally asks /usr/bin/nodejs --check for a second opinion on validity if that binary exists (never required).
"""
import json, os, re, shutil, subprocess, tempfile
from core import Case, canon, Failure
import lingo_gen as L
from lingo_gen import S, sx
import c02, c03

PROP = "C04"
LEAN_MODULES = ["DrxProps.C04", "DrxProps.C04b", "DrxProps.C04Link"]
FAMILIES = ["lspec", "lscr"]
RULE = ("programs of the C02 and C03 spaces, in the three script kinds; expected = Lean toJs of the source tree (rendered), observed = Lean "
        "reader of the JavaScript subset applied to the real generate_js_code text, one observable per handler plus one for the class / "
        "wrapper shell and one for validity of the whole text. distinct_nontrivial = scripts whose every function was readable.")
TRUSTED = ["lean/Drx/Spec/JsRead.lean: reader of the JavaScript subset (JavaScript grouping rules) and toJs (the intended translation, as data)",
           "lean/Drx/Spec/Compile.lean compile scheme (see C02 scheme_validation)", "nodejs --check is only a second opinion (thorough, optional)"]
ASSUMPTIONS = ["same as C02 / C03", "script numbers < 32768: the header field is read as a signed 16-bit value (a larger number would give `class Object__-…`); "
               "Director 4 casts hold at most 32000 members, the generator goes up to 32767", "the JavaScript runtime objects (_movie, _global, LingoString, symbol, list, ...) are not modelled: "
               "denotation is compared at the level of syntax trees through the fixed correspondences"]

NODE = "/usr/bin/nodejs"


def kind_of(tree):
    if tree[1][1] != "-":
        return "factory"
    return "props" if len(tree[2]) > 1 else "plain"


def build_cases(scripts):
    lines = [L.gen_line(sx(s["tree"]), s.get("pre", ()), s.get("scr_num", 0)) for s in scripts]
    outs = L.ask_parallel(lines)
    cases, rejected = [], 0
    for s, o in zip(scripts, outs):
        g = L.parse_gen(o)
        if "error" in g:
            rejected += 1
            continue
        tree = s["tree"]
        handlers = tree[4:]
        k = kind_of(tree)
        hn = "(handlers" + "".join(" " + L.sx_name(h[1]) for h in handlers) + ")"
        lines_c = [f"lspec hjs {'p' if k == 'plain' else 'c'} {L.hexs(hn)} {L.hexs(sx(h))}" for h in handlers]
        lines_c.append(f"lspec jsshell {s.get('scr_num', 0)} {L.hexs(sx(tree[:4] + [[h[0], h[1], h[2]] for h in handlers]))}")
        lines_c.append("lspec const valid")
        spec = dict(script=sx(tree), scr_num=s.get("scr_num", 0), lscr=g["lscr"], lnam=g["lnam"], nhandlers=len(handlers), skind=k,
                    features=[all_features(h, tree) for h in handlers],
                    hnames=[h[1] for h in handlers])
        cases.append(Case(kind=s.get("kind", "random") + "/" + k, spec=spec, lines=lines_c, expect=[None] * len(lines_c)))
    # expected observables = the model (spec) side: ask the driver once for all lines
    flat = [l for c in cases for l in c.lines]
    outs = L.ask_parallel(flat)
    i = 0
    for c in cases:
        c.expect = outs[i:i + len(c.lines)]
        i += len(c.lines)
        # correspondence of the MODEL of the decompiler (family lscr) on the same script: the real JavaScript must be the model's
        c.lines.append(f"lscr js {c.spec['lscr'] or '-'} {c.spec['lnam'] or '-'}"); c.expect.append(None)
    return cases, rejected


# ---------------------------------------------------------------------------------------------- features of JS-specific findings

METHOD_OPS = ("concat", "concats", "contains", "starts")


def _is_num(e):
    return isinstance(e, list) and e and e[0] in ("i", "f")


def _is_unary(e):
    return isinstance(e, list) and e and e[0] == "u"


def code_order_globals(body):
    """globals referenced by name (`46 n`) before any ordinary read / write of the same global in the handler's code order:
    the decompiler only knows a global once it has seen 49/4f for it, so such a reference is taken for a local (no `_global.`)"""
    seen, bad = set(), set()

    def base_of(t):
        while isinstance(t, list) and t and t[0] == "ch":
            t = t[4]
        return t

    def ev(t):
        if not isinstance(t, list) or not t:
            return
        tag = t[0]
        if tag == "g" and len(t) == 2 and isinstance(t[1], str):
            seen.add(t[1]); return
        if tag in ("m", "mcall"):
            for x in t[3:]:
                ev(x)
            o = t[1]
            if isinstance(o, list) and o[0] == "g":
                if o[1] not in seen:
                    bad.add(o[1])
            else:
                ev(o)
            return
        if tag == "set":
            lv, v = t[1], t[2]
            if isinstance(lv, list) and lv and lv[0] in ("the", "op"):
                ev(lv); ev(v)
            else:
                ev(v); ev(lv)
            return
        if tag in ("put", "del"):
            if tag == "put":
                ev(t[2])
            tgt = t[3] if tag == "put" else t[1]
            b = base_of(tgt)
            def chain(c):
                if isinstance(c, list) and c and c[0] == "ch":
                    ev(c[2]); ev(c[3]); chain(c[4])
                elif c is b and isinstance(b, list) and b[0] == "g" and isinstance(tgt, list) and tgt[0] == "ch":
                    if b[1] not in seen:
                        bad.add(b[1])
                else:
                    ev(c)
            chain(tgt)
            return
        for x in t:
            ev(x)
    for st in body:
        ev(st)
    return bad


# the C02 features that also change the JavaScript (F40 / F122 / F124 / F125 / F21 do not: the JavaScript side is right there)
C02_RELEVANT = ("F20", "F38", "F140")
EXCEPTION_FEATURES = ()
FIXED_JS = {"F120", "F128", "F129", "F130"}     # repaired in /repo: ordinary inputs now


def all_features(h, tree):
    f = [x for x in L.features(h, tree[3][1:], [y[1] for y in tree[4:]]) if x in C02_RELEVANT]
    return sorted(x for x in set(f + js_features(h, kind_of(tree))) if x not in FIXED_JS)


def limit_features(h, tree, alone=False):
    """at most one known-defect feature per handler (none on which the decompiler raises unless the script is a probe)"""
    ok = lambda hh: (lambda f: len(f) <= 1 and (alone or not any(x in EXCEPTION_FEATURES for x in f)))(all_features(hh, tree))
    if ok(h):
        return h
    head, body = h[:3], h[3:]
    keep = []
    for st in body:
        if ok(head + keep + [st]):
            keep.append(st)
    return head + (keep or [["call", "nothing"]])


def js_features(h, skind):
    """F120: global referenced by name before the handler reads/writes it; F20: string object index printed as a plain JS string;
    the C03 classes (raw jump pseudo-statements appear in the JavaScript as well)"""
    f = set(L.c03_classes(h[3:]))
    if "F152" in L.c03_prop_loop_classes(h[3:]):
        f.add("F152")      # `repeat with <declared property> = a to b` stays in its lowered form: a while loop instead of the for loop
    # F141: a local variable, a parameter or (plain scripts: functions) the handler itself is named by a JavaScript reserved word
    reserved = set(L.JS_RESERVED_IDS) | (set(L.JS_STRICT_RESERVED_IDS) if skind != "plain" else set())
    if (any(isinstance(t, list) and len(t) == 2 and t[0] in ("l", "p") and t[1] in reserved for t in L.walk(h[3:]))
            or any(p in reserved for p in h[2]) or (skind == "plain" and h[1] in reserved)):
        f.add("F141")
    if skind != "plain" and any(len(t) >= 2 and t[0] == "tell" for t in L.walk(h[3:])):
        f.add("F131")
    if code_order_globals(h[3:]):
        f.add("F120")
    def kept(a):      # object indices the JavaScript keeps: numbers, locals, parameters
        return isinstance(a, list) and a and (a[0] in ("i", "f") or (a[0] in ("l", "p") and a[1] != "me"))
    for t in L.walk(h[3:]):
        if len(t) >= 3 and t[0] in ("m", "mcall") and isinstance(t[1], list) and t[1][0] == "g":
            f.add("F129")
        if len(t) >= 3 and t[0] in ("with", "in") and isinstance(t[1], list) and t[1][0] in ("g", "r"):
            f.add("F130")
        if len(t) >= 4 and t[0] == "the" and t[1] in L.OBJ_TABLES:
            if any(not kept(a) for a in t[3:3 + L.OBJ_TABLES[t[1]]]):
                f.add("F20")
        if len(t) >= 4 and t[0] == "set" and isinstance(t[1], list) and t[1][:2] == ["the", "field"] and not kept(t[1][3]):
            f.add("F20")
        if len(t) == 4 and t[0] == "put":
            # the `.text` of a put target is inserted by a regular expression over the generated text: every `field(` occurrence
            # in the target gets one, placed after the first `)` that follows it
            tgt = t[3]
            b = tgt
            while isinstance(b, list) and b and b[0] == "ch":
                b = b[4]
            def is_fieldish(x):
                return isinstance(x, list) and x and (x[0] == "fld" or (x[0] == "the" and len(x) > 1 and x[1] == "field"))
            others = [x for x in L.walk(tgt) if is_fieldish(x) and x is not b]
            bad = bool(others)
            if isinstance(b, list) and b and b[0] == "fld":
                idx = b[1]
                simple = idx == "me" or (isinstance(idx, list) and idx and (idx[0] in ("i", "f", "l", "p", "g", "r", "mov")
                                                                            or (idx[0] == "key" and idx[1] not in ("date", "time"))
                                                                            or idx[:2] == ["the", "sys"]
                                                                            or (idx[0] == "the" and idx[1] == "special" and len(idx) == 3 and idx[2] < 6)))
                if not simple:
                    bad = True
            if bad:
                f.add("F128")
    return sorted(f)


# ---------------------------------------------------------------------------------------------- program space

def with_kind(tree, kind, rng):
    """the same handlers as a plain script, a script with properties, or a factory"""
    tree = [list(x) if isinstance(x, list) else x for x in tree]
    if kind == "plain":
        return tree
    if kind == "props":
        tree[2] = ["props", "legCount", "pSpeed"]
        return tree
    tree[1] = ["factory", "makeStack"]
    tree[2] = ["props", "myLength"]
    hs = []
    for i, h in enumerate(tree[4:]):
        h = list(h); h[0] = "method"
        hs.append(h)
    # a factory with instance variables declares them in mnew
    if hs and hs[0][1] != "mnew":
        hs = [["method", "mnew", [], ["set", ["r", "myLength"], ["i", 0]]]] + hs
    return tree[:4] + hs


class TellGen:
    """handlers in which tell blocks occur in sequences and nested (up to 3 deep), inside if branches and loop bodies, with movie /
    system properties (`the stageColor`, … : `_movie.X` outside, the told window's bare `X` inside a block), movie properties and
    commands before, inside and after the inner blocks — what the translation of a property depends on is the block that is
    CURRENT at that point, so every position relative to opened / ended blocks matters"""
    def __init__(self, rng):
        self.rng = rng
        self.n = 0

    def num(self):
        self.n += 1
        return self.n

    def simple(self, in_tell):
        r = self.rng
        c = r.random()
        k = r.choice(L.SYS_K)
        if c < 0.35:
            return ["set", ["the", "sys", k], ["i", self.num()]]
        if c < 0.5:
            return ["call", "put", ["the", "sys", k]]
        if c < 0.6:
            return ["set", ["l", "x"], ["b", "add", ["the", "sys", k], ["i", self.num()]]]
        if c < 0.7:
            return ["set", ["mov", r.choice(L.MOVIE_NAMES)], ["i", self.num()]]
        if c < 0.8:
            return ["call", "put", ["key", r.choice(L.KEY_NAMES)]]
        return ["call", r.choice(["updateStage", "beep", "puppetTempo", "nothing", "pause"])] + ([["i", self.num()]] if r.random() < 0.5 else [])

    def items(self, depth, nest, in_tell, lo=1, hi=4):
        r = self.rng
        out = []
        for _ in range(r.randint(lo, hi)):
            c = r.random()
            if c < 0.3 and nest < 3:
                out.append(["tell", ["c", "window", ["s", S(r.choice(["a", "b", "intro", "tool"]))]]] + self.items(depth, nest + 1, True, 0 if r.random() < 0.1 else 1, 3))
            elif c < 0.4 and depth > 0:
                t = self.items(depth - 1, nest, in_tell, 1, 2)
                e = self.items(depth - 1, nest, in_tell, 1, 2) if r.random() < 0.4 else []
                out.append(["if", ["b", "lt", ["l", "c"], ["i", self.num()]], t, e])
            elif c < 0.47 and depth > 0:
                out.append(["while", ["b", "ne", ["l", "c"], ["i", self.num()]]] + self.items(depth - 1, nest, in_tell, 1, 2))
            elif c < 0.52 and depth > 0:
                out.append(["with", ["l", "i"], ["i", 1], ["i", 3], "up"] + self.items(depth - 1, nest, in_tell, 1, 2))
            else:
                out.append(self.simple(in_tell))
        return out


def tell_scripts(rng, n):
    out = []
    for i in range(n):
        g = TellGen(rng)
        hs = []
        for j in range(rng.choice([1, 2, 3])):
            body = g.items(rng.choice([0, 1, 2]), 0, False, 2, 5)
            hs.append(["on", "h%d" % j, ["a"]] + body)
        out.append(dict(tree=["script", ["factory", "-"], ["props"], ["globals"]] + hs, pre=[], kind="tell-blocks"))
    # the systematic part: every arrangement of up to three blocks (sequence / nesting) with a property at every position
    sysp = lambda v: ["set", ["the", "sys", 0x1b], ["i", v]]
    win = lambda w: ["c", "window", ["s", S(w)]]
    shapes = []
    def arrangements(k):
        """forests with k tell nodes"""
        if k == 0:
            return [[]]
        res = []
        for a in range(k):          # first tree has 1 + a nodes, the rest k - 1 - a
            for kids in arrangements(a):
                for rest in arrangements(k - 1 - a):
                    res.append([kids] + rest)
        return res
    def build(forest, cnt):
        items = [sysp(cnt[0])]; cnt[0] += 1
        for kids in forest:
            items.append(["tell", win("w%d" % cnt[0])] + build(kids, cnt))
            items.append(sysp(cnt[0])); cnt[0] += 1
        return items
    for k in (1, 2, 3, 4):
        for f in arrangements(k):
            shapes.append(build(f, [1]))
    for i in range(0, len(shapes), 4):
        hs = [["on", "t%d" % j, []] + b for j, b in enumerate(shapes[i:i + 4])]
        out.append(dict(tree=["script", ["factory", "-"], ["props"], ["globals"]] + hs, pre=[], kind="tell-arrangements"))
    return out


def shared_node_scripts(rng, n):
    """constructs whose bytecode shares ONE operand between several places of the emitted text: the list of `repeat with x in E`
    (copied on the stack into count(E), getAt(E, 1) and the loop header) and the arguments of a call on `me` inside a factory
    method (generated once for the call and once for the dispatch). E ranges over every expression form, not only variables
    and linear lists (seeded change C04-m6: a generator that is not repeatable showed only there)."""
    out = []
    forced = lambda g, env: rng.choice([
        ["pl", ["y", "name"], ["s", S("Jhon")], ["y", "age"], ["i", 30]],
        ["pl", ["y", "a"], ["i", 1]],
        ["li", ["pl", ["y", "a"], ["i", 1], ["y", "b"], ["i", 2]], ["i", 3]],
        ["c", "getList", ["pl", ["y", "a"], ["i", 1], ["y", "b"], ["li", ["i", 1], ["i", 2]]]],
        ["li", ["li", ["i", 1], ["i", 2]], ["li", ["i", 3]]],
        ["b", "add", ["l", env["locals"][0]], ["li", ["i", 1], ["i", 2]]],
        ["m", ["l", env["objs"][0]], "mGet", ["pl", ["y", "a"], ["i", 1], ["y", "b"], ["i", 2]]],
        ["the", "sys", 0x1b], ["fld", ["i", 3]], ["ch", "word", ["i", 1], ["i", 0], ["fld", ["i", 2]]]])
    for i in range(n):
        kind = rng.choice(["plain", "props", "factory", "factory"])
        g = L.Gen(rng, kind)
        if kind != "plain":
            g.props = rng.sample(L.PROPS, rng.choice([1, 2]))
        names = L.handler_names(rng.choice([1, 2, 3]), rng, kind == "factory")
        g.handlers = names
        hs = []
        for nm in names:
            def body(env):
                items = []
                for _ in range(rng.choice([1, 2, 3])):
                    e = forced(g, env) if rng.random() < 0.5 else g.expr(env, rng.choice([1, 2, 3]))
                    c = rng.random()
                    if c < 0.5 or kind != "factory":
                        x = ["l", env["locals"][-1]]
                        inner = [["call", "put", x]]
                        if rng.random() < 0.3:
                            inner.append(["in", ["l", env["locals"][0]], forced(g, env), ["call", "put", ["l", env["locals"][0]]]])
                        items.append(["in", x, e] + inner)
                    elif c < 0.8:
                        items.append(["mcall", "me", rng.choice(L.METHODS)] + [g.expr(env, 1) for _ in range(rng.choice([0, 1]))] + [e])
                    else:
                        items.append(["set", ["l", env["locals"][0]], ["m", "me", rng.choice(L.METHODS), e]])
                    if rng.random() < 0.4:
                        items.append(["set", ["l", env["locals"][0]], e])      # the same expression once more, generated once
                return items
            hs.append(g.handler(nm, body))
        out.append(dict(tree=g.script(hs), pre=[], kind="shared-node"))
    return out


def renamed_function_scripts(rng, tier):
    """the function names CallFunction.generate_js rewrites (new -> _movie.newMember / _movie.newScript depending on the FIRST
    argument, birth, go, cast, continue) with every arrangement of argument kinds for 0..3 arguments, in statement and in expression
    position (seeded change C04-m7: a decision taken on the wrong end of the argument list showed only with >= 2 arguments)"""
    kinds = [["y", "bitmap"], ["i", 5], ["s", S("Bug")], ["l", "x"], ["c", "script", ["s", S("Bug")]]]
    out, hs = [], []
    import itertools
    for fn in ("new", "birth", "cast", "myFunc"):
        for n in (0, 1, 2, 3):
            combos = list(itertools.product(kinds, repeat=n))
            if tier == "quick" and n == 3:
                combos = [c for c in combos if c[1][0] == "i"]
            for args in combos:
                if fn == "cast" and n != 1:
                    continue
                body = [["set", ["l", "x"], ["c", fn] + [list(a) for a in args]]]
                if fn in ("new", "birth", "myFunc"):
                    body.append(["call", fn] + [list(a) for a in args])
                hs.append(body)
    # names NEAR the special ones: every substring of length >= 1 (as far as it is an identifier), the name with a letter appended /
    # prepended, and a case variant — none of them is special, all must be emitted as ordinary calls `name(args)`
    # (seeded change C04-m9: `nm in ('return')` is a substring test)
    near = set()
    for sp in ("return", "new", "birth", "go", "cast", "continue", "me", "put", "sound"):
        for a in range(len(sp)):
            for b in range(a + 1, len(sp) + 1):
                near.add(sp[a:b])
        near |= {sp + "s", "x" + sp, sp.capitalize() + "X"}
    near -= {"return", "new", "birth", "go", "cast", "continue", "me", "put", "sound", "t", "e"}    # `t`, `e`: too short to be told from a variable in this check
    near = sorted(n for n in near if n[0].isalpha() and n not in L.JS_RESERVED_IDS and n not in L.JS_STRICT_RESERVED_IDS)
    if tier == "quick":
        near = [n for n in near if len(n) <= 4 or n.endswith("s") or n.startswith("x")]
    for nm in near:
        hs.append([["call", nm], ["call", nm, ["i", 5]], ["set", ["l", "x"], ["c", nm, ["i", 1], ["l", "x"]]]])
    for i in range(0, len(hs), 8):
        out.append(dict(tree=["script", ["factory", "-"], ["props"], ["globals"]] +
                        [["on", "h%d" % j, ["v"]] + b for j, b in enumerate(hs[i:i + 8])], pre=[], kind="renamed-functions"))
    return out


def _p(body, name="probe", params=("a",), kind="plain", props=(), hdr_globals=()):
    tree = ["script", ["factory", "-"], ["props"] + list(props), ["globals"] + list(hdr_globals), ["on", name, list(params)] + body]
    return dict(tree=with_kind(tree, kind, None) if kind != "plain" else tree, pre=[], kind="probe")


PROBES = {
    "f20_global_sprite_index": _p([["call", "put", ["the", "sprite", 13, ["g", "gCount"]]]]),
    "f20_string_cast_index": _p([["call", "put", ["the", "cast", 1, ["s", S("Fish.mov")]]]]),
    "f20_expr_sprite_index": _p([["call", "put", ["the", "sprite", 13, ["b", "add", ["l", "i"], ["i", 1]]]]]),
    "f22_nested_tell": _p([["tell", ["c", "window", ["s", S("a")]], ["tell", ["c", "window", ["s", S("b")]], ["call", "updateStage"]], ["call", "beep"]]]),
    "f26_wrapper_for_handler_t": dict(tree=["script", ["factory", "-"], ["props", "legCount"], ["globals"], ["on", "t", ["me"], ["call", "return", ["r", "legCount"]]],
                                           ["on", "birth", ["me"], ["call", "return", ["p", "me"]]]], pre=[], kind="probe"),
    "f38_set_field_property": _p([["set", ["the", "field", 6, ["i", 1]], ["s", S("right")]]]),
    "f41_numeric_receiver": _p([["set", ["l", "x"], ["b", "concat", ["i", 1], ["p", "a"]]], ["set", ["l", "x"], ["ch", "char", ["i", 5], ["i", 0], ["i", 7]]]]),
    "f42_unary_receiver": _p([["set", ["l", "x"], ["b", "concat", ["u", "neg", ["p", "a"]], ["l", "x"]]]]),
    "f120_global_by_name": _p([["put", "after", ["s", S("x")], ["ch", "item", ["i", 1], ["i", 0], ["g", "gList"]]]], hdr_globals=["gList"]),
    "f127_set_framelabel": _p([["set", ["mov", "frameLabel"], ["i", 1]], ["call", "put", ["mov", "frameLabel"]]]),
    "f128_put_field_text_regex": _p([["put", "into", ["i", 1], ["fld", ["c", "random", ["i", 3]]]]]),
    "f129_global_receiver": _p([["set", ["g", "gObj"], ["i", 0]], ["mcall", ["g", "gObj"], "mReset"]]),
    "f131_with_in_class_body": _p([["tell", ["c", "window", ["s", S("tour")]], ["call", "updateStage"]]], kind="props"),
    "f130_global_loop_variable": _p([["with", ["g", "gIdx"], ["i", 1], ["i", 3], "up", ["call", "put", ["g", "gIdx"]]]]),
    "tell_then_nested_tell_property_after_inner": _p([
        ["tell", ["c", "window", ["s", S("intro")]], ["call", "puppetTempo", ["i", 5]]],
        ["tell", ["c", "window", ["s", S("a")]], ["set", ["the", "sys", 0x1b], ["i", 1]],
         ["tell", ["c", "window", ["s", S("b")]], ["set", ["the", "sys", 0x1b], ["i", 2]]],
         ["set", ["the", "sys", 0x1b], ["i", 3]]],
        ["set", ["the", "sys", 0x1b], ["i", 4]]]),
    "f139_declared_property_named_like_movie_property": dict(tree=["script", ["factory", "-"], ["props", "actorList"], ["globals"],
        ["on", "probe", ["a"], ["set", ["r", "actorList"], ["i", 1]], ["set", ["l", "x"], ["r", "actorList"]]]], pre=[], kind="probe"),
    "f140_symbol_first_arg_of_list_function": _p([["set", ["l", "x"], ["c", "getOne", ["y", "foo"], ["i", 3]]]]),
    "f142_object_named_tell_obj": _p([["set", ["l", "tell_obj"], ["i", 1]], ["set", ["l", "x"], ["op", "foo", ["l", "tell_obj"]]], ["set", ["op", "bar", ["l", "tell_obj"]], ["i", 2]]]),
    "f141_reserved_word_as_local": _p([["set", ["l", "var"], ["i", 3]]]),
    "f138_exit_directly_in_tell": _p([["while", ["b", "ne", ["l", "c"], ["i", 1]], ["tell", ["c", "window", ["s", S("a")]], ["call", "beep"], "exitrep"]]]),
    "f137_if_inside_tell": _p([["tell", ["c", "window", ["s", S("a")]], ["if", ["b", "lt", ["l", "c"], ["i", 2]], [["set", ["the", "sys", 0x1b], ["i", 1]]], [["call", "beep"]]],
                                ["with", ["l", "i"], ["i", 1], ["i", 3], "up", ["call", "put", ["the", "sys", 0x1b]]]]]),
    "f23_exit_directly_in_loop": _p([["while", ["b", "ne", ["l", "c"], ["i", 1]], ["call", "put", ["i", 2]], "exitrep"]]),
}


def probe_scripts():
    return [dict(v, probe=k) for k, v in PROBES.items()]


def mkcorpus():
    from core import VERIF
    d = VERIF / "corpus" / "C04"
    d.mkdir(parents=True, exist_ok=True)
    cs, _ = build_cases(probe_scripts())
    for (k, _), c in zip(PROBES.items(), cs):
        c.kind = "corpus-" + k
        (d / (k + ".json")).write_text(json.dumps(dict(case=dict(kind=c.kind, spec=c.spec, lines=c.lines, expect=c.expect)), indent=1))
    print("wrote", len(cs), "replays to", d)


def cases(rng, tier):
    scripts = []
    leafsets = c02.LEAFSETS[:1] if tier == "quick" else c02.LEAFSETS[:3]
    ex = c02.exhaustive_scripts(leafsets)
    for i, s in enumerate(ex):
        k = ["plain", "plain", "props", "factory"][i % 4] if tier == "quick" else None
        for kk in ([k] if k else ["plain", "props", "factory"]):
            scripts.append(dict(tree=with_kind(s["tree"], kk, rng), pre=[], kind="pairs-exhaustive"))
    fam = c02.family_scripts(rng)
    for i, s in enumerate(fam if tier != "quick" else fam[::5]):
        scripts.append(dict(tree=with_kind(s["tree"], ["plain", "props", "factory"][i % 3], rng), pre=[], kind="families"))
    # control flow: every exit-free skeleton with <= 3 constructs (one-item bodies) + the exit ones (single scripts), three kinds rotating
    sk = c03.skeleton_scripts(3 if tier == "quick" else 4, 1, "skel")
    for i, s in enumerate(sk):
        scripts.append(dict(tree=with_kind(s["tree"], ["plain", "props", "factory"][i % 3], rng), pre=[], kind=s["kind"]))
    n_random = dict(quick=350, thorough=8000, search=4000)[tier]
    for i in range(n_random):
        scripts.append(c02.random_script(rng, depth_max=3 if tier == "quick" else rng.choice([3, 4, 5])))
    for s in c03.random_scripts(rng, dict(quick=150, thorough=4000, search=2000)[tier], allow_exit_ratio=0.15):
        scripts.append(dict(tree=with_kind(s["tree"], rng.choice(["plain", "props", "factory"]), rng), pre=s.get("pre", []), kind=s["kind"]))
    scripts += c02.wide_scripts(rng)
    scripts += tell_scripts(rng, dict(quick=150, thorough=3000, search=1500)[tier])
    scripts += shared_node_scripts(rng, dict(quick=120, thorough=2500, search=1200)[tier])
    scripts += renamed_function_scripts(rng, tier)
    scripts += [dict(tree=x["tree"], pre=[], kind="loop-variable-kinds") for x in c03.property_loop_scripts(tier)]
    scripts += [dict(tree=x["tree"], pre=[], kind="condition-forms") for x in c03.condition_form_scripts(tier, with_starts=True)]
    scripts += L.border_scripts(rng, tier)
    for sc in scripts:
        t = sc["tree"]
        sc["tree"] = t[:4] + [limit_features(h, t) for h in t[4:]]
    cs, rejected = build_cases(scripts)
    cases.rejected = rejected
    cases.last = cs
    return cs


# ---------------------------------------------------------------------------------------------- the real code

def split_js(text, skind):
    """-> (function chunks in handler order, 'm' or 'f'): the emitted layout is fixed (functions at column 0 / methods at 4 spaces)"""
    lines = text.split("\n")
    chunks, cur = [], None
    if skind == "plain":
        for l in lines:
            if l.startswith("function "):
                if cur is not None:
                    chunks.append(cur)
                cur = [l]
            elif cur is not None:
                cur.append(l)
        if cur is not None:
            chunks.append(cur)
        return ["\n".join(c) for c in chunks], "f"
    in_class = False
    for l in lines:
        if l.startswith("class "):
            in_class = True
            continue
        if in_class and l == "}":
            break
        if in_class and re.match(r"^    [A-Za-z_$][A-Za-z0-9_$]*\(.*\) \{$", l):
            if cur is not None:
                chunks.append(cur)
            cur = [l]
        elif cur is not None:
            cur.append(l)
    if cur is not None:
        chunks.append(cur)
    return ["\n".join(c) for c in chunks], "m"


def impl(case):
    sp = case["spec"]
    n = len(case["lines"])
    model_line = case["lines"][-1].startswith("lscr js ")        # corpus replays predate the model line
    try:
        text = L.decompile(L.B(sp["lscr"]), L.B(sp["lnam"]), want=("js",))["js"]
    except Exception:
        return [canon("error")] * n
    tail = [canon(text)] if model_line else []
    chunks, mode = split_js(text, sp["skind"])
    hexu = lambda t: t.encode("utf-8").hex() or "-"
    outs = L.ask([f"lspec readjs {hexu(text)}"] + [f"lspec readjsfn {mode} {hexu(c)}" for c in chunks])
    whole = outs[0] or "error"
    out = []
    nh = sp["nhandlers"]
    for i in range(nh):
        out.append(outs[1 + i] if i < len(chunks) and outs[1 + i] is not None else "missing")
    wt = whole.split("\t")
    if wt[0] == "ok":
        out.append(wt[1])
    else:
        # shell of an invalid text: read the shell alone (class line + wrappers) by removing the method bodies is not possible in general
        out.append("unreadable")
    exp = case.get("expect") or []
    funcs_ok = all(a == b for a, b in zip(out[:nh], exp[:nh]))
    if wt[0] != "ok" and funcs_ok:
        pass
    elif wt[0] != "ok":
        out[-1] = exp[nh] if len(exp) > nh else out[-1]      # the unreadable function is already reported on its own line
    out.append("valid" if (wt[0] == "ok" or not funcs_ok) else "invalid")
    return out + tail


def nontrivial(case, io):
    return not any(x in ('"error"', "missing", "error", "unreadable") for x in io)


# ---------------------------------------------------------------------------------------------- known findings

def _feat(case, f):
    if f.line is None or f.line >= case["spec"]["nhandlers"]:
        return None
    return case["spec"]["features"][f.line]


def m_feature(case, f, params):
    fe = _feat(case, f)
    if fe is None:
        return False
    known = [x for x in fe if x.startswith("F")]
    return known == [params["feature"]] or (params.get("among") and params["feature"] in known and all(k in params["among"] for k in known))


def m_script_exception(case, f, params):
    return f.got == canon("error") and any(params["feature"] in fe for fe in case["spec"]["features"])


MATCHERS = {"c04_feature": m_feature, "c04_script_exception": m_script_exception}


def node_check(texts):
    """-> list of True/False/None (None = node not available)"""
    if not os.path.exists(NODE):
        return [None] * len(texts)
    out = []
    d = tempfile.mkdtemp(prefix="c04node", dir=str(L.VERIF / ".work")) if (L.VERIF / ".work").exists() else tempfile.mkdtemp(prefix="c04node")
    try:
        for i, t in enumerate(texts):
            p = os.path.join(d, f"s{i}.js")
            with open(p, "w") as fh:
                fh.write(t)
            r = subprocess.run([NODE, "--check", p], stdout=subprocess.DEVNULL, stderr=subprocess.DEVNULL)
            out.append(r.returncode == 0)
    finally:
        shutil.rmtree(d, ignore_errors=True)
    return out


def extra_stage(ctx, driver, stats):
    stats["rejected_by_scheme"] = getattr(cases, "rejected", 0)
    stats["exhaustive"] = 1
    ctx.cov["nodejs"] = "present" if os.path.exists(NODE) else "absent"
    if ctx.tier != "thorough" or not os.path.exists(NODE):
        return
    # second opinion on validity: our reader vs node --check on a sample of emitted texts
    sample = getattr(cases, "last", [])[::max(1, len(getattr(cases, "last", [])) // 400)]
    texts, ours = [], []
    for c in sample:
        try:
            t = L.decompile(L.B(c.spec["lscr"]), L.B(c.spec["lnam"]), want=("js",))["js"]
        except Exception:
            continue
        texts.append(t)
    res = L.ask_parallel([f"lspec readjs {t.encode('utf-8').hex() or '-'}" for t in texts])
    ours = [(r or "error").startswith("ok") for r in res]
    theirs = node_check(texts)
    agree = sum(1 for a, b in zip(ours, theirs) if a == b)
    ctx.cov["node_check"] = dict(sampled=len(texts), agree=agree, reader_valid_node_invalid=sum(1 for a, b in zip(ours, theirs) if a and b is False),
                                 reader_invalid_node_valid=sum(1 for a, b in zip(ours, theirs) if (not a) and b))


if __name__ == "__main__":
    import core, sys
    if sys.argv[1:2] == ["mkcorpus"]:
        import logging; logging.disable(logging.CRITICAL)
        mkcorpus(); sys.exit(0)
    sys.exit(core.main("c04"))
