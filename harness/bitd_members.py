"""Bitmap cast members for whole-movie checks (C05): a Director-4 CASt bitmap record, the BITD chunk of a small random image
inside `supportedB` (lean/Drx/BitdSpec.lean) and the BMP the C06 theorems say `bitd2bmp` returns for it."""
import random, struct
import bitd_spec as S
import c15

DEPTH_CODE = {1: 0x00, 8: 0x82, 16: 0x84, 32: 0x8A}
# palette ids of the cast record whose name (cast/image.py get_palette_name) is a system palette of bitd/decoder.py PALETTES[8]
SYSTEM_PALETTE_IDS = {0: "systemMac", -1: "rainbow", -2: "grayscale", -3: "pastels", -4: "vivid", -5: "ntsc", -6: "metallic",
                      -7: "web216", -100: "systemWinDir4", -101: "systemWin"}


def _rand_img(rng, depth, W, H, ox, oy):
    w, h = W - ox, H - oy
    if depth == 1: f = lambda: rng.randrange(2)
    elif depth == 8: f = lambda: rng.choice([rng.randrange(256), 3, 3, 0xFF])
    elif depth == 16: f = lambda: rng.choice([rng.randrange(65536), 0x0202, 0x7C00])
    else: f = lambda: rng.choice([[rng.randrange(256) for _ in range(4)], [0, 5, 5, 5]])
    return dict(depth=depth, W=W, H=H, ox=ox, oy=oy, pix=[[f() for _ in range(w)] for _ in range(h)])


system_palette_bytes = S.repo_palette


def rand_bitmap_member(rng, depth, max_w=12, max_h=5):
    """-> (cast_record_bytes, bitd_chunk_bytes, expected_bmp_bytes) for a small random image of depth 1, 8, 16 or 32.
    cast_record_bytes is a valid Director-4 CASt bitmap record (built with c15.enc_d4) such that
        bitd2bmp(parse_cast_file_data(cast_record_bytes), b'', bitd_chunk_bytes) == expected_bmp_bytes
    on the real code (expected_bmp_bytes is computed from the image alone, bitd_spec.expected_bmp). The image is inside
    `supportedB`: any canvas size and registration offsets; 1/8 bit raw or PackBits, 16/32 bit PackBits; the stream never has
    exactly the raw length unless it is raw."""
    assert depth in DEPTH_CODE
    while True:
        W = rng.randrange(1, max_w + 1); H = rng.randrange(1, max_h + 1)
        ox = rng.randrange(0, W); oy = rng.randrange(0, H)
        img = _rand_img(rng, depth, W, H, ox, oy)
        pad = rng.choice([0, 0xFF, rng.randrange(256)])
        rows = S.raw_rows(img, pad)
        raw = depth in (1, 8) and rng.random() < 0.3
        if raw:
            data = b"".join(rows)
        else:
            enc = []
            for r in rows:
                n = len(r)
                cuts = sorted(set(rng.randrange(1, n) for _ in range(rng.randrange(0, 4)))) if n > 1 else []
                enc.append(S.seg_to_ops(r, cuts, prefer_run=rng.random() < 0.8))
            data = S.serialise_packed(enc)
            if len(data) == S.raw_len(img):
                continue                     # indistinguishable from raw data by construction of the format
        break
    pal_id = rng.choice(list(SYSTEM_PALETTE_IDS)) if depth == 8 else rng.choice([0, -1, 5])
    fields = [rng.randrange(256), DEPTH_CODE[depth], rng.randrange(256), oy, ox, H, W, 0, 0, H, W, rng.randrange(0, H + 1), rng.randrange(0, W + 1)]
    sp = dict(kind="bitmap", fields=fields, tail=[depth, pal_id], pad="",
              info=dict(sk=0, bd1=0, bd2=0, si=0, unknowns=[], extras=[]))
    record = c15.enc_d4(sp)
    pal = system_palette_bytes(depth, "black and white" if depth == 1 else SYSTEM_PALETTE_IDS.get(pal_id, "default"))
    return record, data, S.expected_bmp(img, not raw, pal)


def selfcheck(n=400, seed=1):
    """runs the real code on n members per depth; returns the number of mismatches"""
    import logging
    logging.disable(logging.CRITICAL)
    from drxtract.cast import parse_cast_file_data
    from drxtract.bitd.bitd2bmp import bitd2bmp
    rng = random.Random(seed)
    bad = 0
    for depth in (1, 8, 16, 32):
        for _ in range(n):
            rec, data, exp = rand_bitmap_member(rng, depth)
            got = bitd2bmp(parse_cast_file_data(rec), b"", data)
            if bytes(got) != exp:
                bad += 1
    return bad


if __name__ == "__main__":
    print("mismatches:", selfcheck())
