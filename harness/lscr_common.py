"""Shared tooling of the `lscr` family (C11, C12): fixture list, Lscr/Lnam assembler, fresh-process-equivalent runners
of the real decompiler, the random well-formed bytecode generator and the stage-G translators
(Gen/Opcodes, Gen/OpNames, Gen/PropTables, Gen/Mutations)."""
from __future__ import annotations
import os, re, struct, sys
from pathlib import Path

REPO = Path(os.environ.get("DRX_REPO", "/repo"))
FIXDIR = REPO / "tests" / "files" / "lingo"


# ---------------------------------------------------------------------------------------------- fixtures

def fixture_pairs():
    """(lnam file, lscr file, stem) for the 70 decompiler fixtures, read off the repo's own parameterised tests"""
    out, seen = [], set()
    for test, ext in (("test_lscr2lingo.py", "lingo"), ("test_lscr2js.py", "js")):
        t = (REPO / "tests" / test).read_text()
        for m in re.finditer(r"\[\s*'([^']+\.Lnam)'\s*,\s*\\?\s*'([^']+\.Lscr)'\s*,\s*\\?\s*'([^']+\.%s)'\s*\]" % ext, t):
            k = (m.group(1), m.group(2))
            if k not in seen:
                seen.add(k)
                out.append((m.group(1), m.group(2), m.group(2)[:-5]))
    return out


def fixture_bytes():
    """[(stem, lscr bytes, lnam bytes, expected lingo text|None, expected js text|None)]"""
    out = []
    for lnam, lscr, stem in fixture_pairs():
        exp_l = FIXDIR / (stem + ".lingo")
        exp_j = FIXDIR / (stem + ".js")
        out.append((stem, (FIXDIR / lscr).read_bytes(), (FIXDIR / lnam).read_bytes(),
                    exp_l.read_bytes().decode("utf-8") if exp_l.exists() else None,
                    exp_j.read_bytes().decode("utf-8") if exp_j.exists() else None))
    return out


def game_scripts():
    """[(label, lscr bytes, lnam bytes)] for the Lscr chunks of the movies under tests/files/riff"""
    out = []
    root = REPO / "tests" / "files" / "riff"
    if not root.is_dir():
        return out
    for d in sorted(root.glob("*/files/bin")):
        lnams = sorted(d.glob("*.Lnam"))
        if not lnams:
            continue
        ln = lnams[0].read_bytes()
        for f in sorted(d.glob("*.Lscr")):
            out.append((f"{d.parent.parent.name}/{f.name}", f.read_bytes(), ln))
    return out


# ---------------------------------------------------------------------------------------------- assembler

def build_lnam(names):
    """names: list of bytes (each < 256 long)"""
    body = b"".join(bytes([len(n)]) + n for n in names)
    size = 20 + len(body)
    return struct.pack(">iiiihh", 0, 0, size, size, 0x14, len(names)) + body


def enc_const(c):
    """c = ("s", bytes) | ("i", int32) | ("f", 10 bytes) -> (type, payload bytes or None, inline value)"""
    k, v = c
    if k == "s":
        return 1, struct.pack(">i", len(v) + 1) + v + b"\0"
    if k == "t":      # string whose counted last byte (the terminator slot) is given explicitly: v = content + slot byte
        return 1, struct.pack(">i", len(v)) + v
    if k == "i":
        return 4, None
    if k == "f":
        return 9, struct.pack(">i", len(v)) + v
    raise ValueError(k)


def build_lscr(handlers, constants=(), props=(), globs=(), scr_num=1, cont_scr_num=-1, factory_name_idx=-1, wide_consts=False):
    """handlers: list of dict(name=idx, args=[idx], locals=[idx], globals=[idx], code=bytes); constants: list of ("s"|"i"|"f", value);
    props/globs: name-table indices. Layout: header(92) code+name tables, property table, global table, function records,
    constant records, constant data. wide_consts=True emits 8-byte constant records (type as uint32)."""
    pos = 92
    blob = b""
    recs = []
    for h in handlers:
        code = h["code"]
        code_off = pos + len(blob)
        blob += code
        if len(blob) % 2:
            blob += b"\0"
        args_off = pos + len(blob)
        blob += b"".join(struct.pack(">h", a) for a in h.get("args", []))
        loc_off = pos + len(blob)
        blob += b"".join(struct.pack(">h", a) for a in h.get("locals", []))
        glob_off = pos + len(blob)
        blob += b"".join(struct.pack(">h", a) for a in h.get("globals", []))
        recs.append((h["name"], len(code), code_off, len(h.get("args", [])), args_off, len(h.get("locals", [])), loc_off,
                     len(h.get("globals", [])), glob_off))
    prb = pos + len(blob)
    blob += b"".join(struct.pack(">h", a) for a in props)
    grb = pos + len(blob)
    blob += b"".join(struct.pack(">h", a) for a in globs)
    frb = pos + len(blob)
    for name, clen, coff, na, aoff, nl, loff, ng, goff in recs:
        blob += struct.pack(">hhiihihihiihhi", name, 0, clen, coff, na, aoff, nl, loff, ng, goff, 0, 0, 0, 0)
    crb = pos + len(blob)
    cdata = b""
    crecs = b""
    for c in constants:
        t, payload = enc_const(c)
        if t == 4:
            off = c[1]
        else:
            off = len(cdata)
            cdata += payload
            if len(cdata) % 2:
                cdata += b"\0"
        crecs += (struct.pack(">i", t) if wide_consts else struct.pack(">h", t)) + struct.pack(">i", off)
    blob += crecs
    con = pos + len(blob)
    blob += cdata
    total = pos + len(blob)
    hdr = struct.pack(">iiiihhhhiiiiiihhiii", 0x2d0f36e0, 1, total, total, 0x5c, scr_num, 2, cont_scr_num,
                      -1, 0, 0, 0, 0, 0, factory_name_idx, 0xb, 0, 0x400, 0)
    # (0, x) pairs are the halves of 32-bit fields (the reader looks at the low half only): packed as 32-bit so that offsets and
    # sizes beyond 32 767 can be written; byte-identical to the former 16-bit pairs for every value below 32 768
    hdr += struct.pack(">hhihihiii", prb, len(globs), grb, len(handlers), frb, len(constants), crb, len(cdata), con)
    assert len(hdr) == 92
    return hdr + blob


# ---------------------------------------------------------------------------------------------- hostile layouts (C10)

def build_lscr_raw(body, prb, grb, nfunc, frb, nconst, crb, con):
    """header with free table offsets/counts; `body` follows the 92-byte header (offsets are absolute)"""
    total = 92 + len(body)
    hdr = struct.pack(">iiiihhhhiiiiiihhiii", 0x2d0f36e0, 1, total, total, 0x5c, 1, 2, -1, -1, 0, 0, 0, 0, 0, -1, 0xb, 0, 0x400, 0)
    hdr += struct.pack(">hhhhhhhhhhhhhh", prb, 0, 0, grb, nfunc, 0, frb, nconst, 0, crb, 0, 0, 0, con)
    return hdr + body


def _frec(name, clen, coff, na, aoff, nl, loff, ng, goff):
    return struct.pack(">hhiihihihiihhi", name, 0, clen, coff, na, aoff, nl, loff, ng, goff, 0, 0, 0, 0)


def fam_shared_locals(k, L):
    """k function records that all name the SAME table of L local names: k*L rounds / LocalVariable objects (finding F103)"""
    tbl = struct.pack(">h", 1) * L
    frb = 92 + len(tbl)
    body = tbl + b"".join(_frec(0, 0, 92, 0, 92, L, 92, 0, 92) for _ in range(k))
    end = 92 + len(body)
    return build_lscr_raw(body, frb, frb, k, frb, 0, end, end)


def fam_shared_table(k, L, which):
    """as fam_shared_locals for each of the three name tables of a handler record: parameters, locals, handler-level globals
    (seeded change C10-m19: one of the three was no longer counted against the file size)"""
    tbl = struct.pack(">h", 1) * L
    frb = 92 + len(tbl)
    rec = {"args": _frec(0, 0, 92, L, 92, 0, 92, 0, 92), "locals": _frec(0, 0, 92, 0, 92, L, 92, 0, 92), "globs": _frec(0, 0, 92, 0, 92, 0, 92, L, 92)}[which]
    body = tbl + rec * k
    end = 92 + len(body)
    return build_lscr_raw(body, frb, frb, k, frb, 0, end, end)


def fam_shared_locals_cancel(k, L, which="args"):
    """as fam_shared_locals, but every record also carries a NEGATIVE count in another field (parameters or handler globals) of the
    same magnitude: a guard that sums the counts before clamping sees 0 declared bytes (seeded change C10-m17)"""
    tbl = struct.pack(">h", 1) * L
    frb = 92 + len(tbl)
    neg = -L if L <= 32768 else -32768
    if which == "args":
        rec = _frec(0, 0, 92, neg, 92, L, 92, 0, 92)
    else:
        rec = _frec(0, 0, 92, 0, 92, L, 92, neg, 92)
    body = tbl + rec * k
    end = 92 + len(body)
    return build_lscr_raw(body, frb, frb, k, frb, 0, end, end)


def fam_shared_code(k, c):
    """k function records that all name the SAME bytecode of c statements `set x = 1`: k*c instructions decoded (finding F103)"""
    code = b"\x41\x01\x52\x00" * c + b"\x01"
    code += b"\0" * (len(code) % 2)
    body = code + struct.pack(">h", 1)
    frb = 92 + len(body)
    body += b"".join(_frec(0, 4 * c + 1, 92, 0, 92, 1, 92 + len(code), 0, 92) for _ in range(k))
    end = 92 + len(body)
    return build_lscr_raw(body, frb, frb, k, frb, 0, end, end)


def fam_shared_consts(k, S):
    """k string constants that all name the SAME S-byte string: k decoded and escaped copies (finding F104)"""
    recs = b"".join(struct.pack(">hi", 1, 0) for _ in range(k))
    cdata = struct.pack(">i", S + 1) + b"a" * S
    return build_lscr_raw(recs + cdata, 92, 92, 0, 92, k, 92, 92 + len(recs))


def fam_neg_length_consts(k, pad, ctype=1):
    """k constant records (string, or float with ctype=9) that all name ONE length word holding a negative number chosen so that the
    END of the data slice counts from the end of the file (`fdata[p+4:-2]`): every record takes almost the whole file while a guard
    that clamps the length at 0 sees 4 declared bytes (finding F161: k x N memory, 1000 records in 12 KiB took 30 MB)"""
    p = 92
    strlength = -(p + 4) - 2                       # end of slice = p + 4 + strlength = -2
    v = strlength + 1 if ctype == 1 else strlength
    body = struct.pack(">i", v) + bytes([0x41]) * pad
    crb = 92 + len(body)
    body += struct.pack(">hi", ctype, 0) * k
    return build_lscr_raw(body, crb, crb, 0, crb, k, crb, p)


def fam_empty_loops(n):
    """the Lean witness family of DrxProps/C10Lscr.lean: `01 54 01` n times = n loops `repeat while TRUE / exit / end repeat`;
    JumpOpcode.process makes n*(n+3)/2 loop rounds"""
    return build_lscr([dict(name=0, args=[], locals=[1], code=b"\x01\x54\x01" * n)])


# ---------------------------------------------------------------------------------------------- the real code

def _quiet():
    import logging
    logging.disable(logging.CRITICAL)
    if str(REPO) not in sys.path:
        sys.path.insert(0, str(REPO))


def py_parse(lscr: bytes, lnam: bytes):
    _quiet()
    from drxtract.lingosrc.parse import parse_lnam_file_data, parse_lrcr_file_data
    return parse_lrcr_file_data(lscr, parse_lnam_file_data(lnam))


def py_lingo(lscr: bytes, lnam: bytes):
    """fresh parse + generate_lingo_code; None on any exception"""
    _quiet()
    from drxtract.lingosrc.codegen import generate_lingo_code
    try:
        return generate_lingo_code(py_parse(lscr, lnam))
    except RecursionError:
        raise
    except Exception:
        return None


def py_js(lscr: bytes, lnam: bytes):
    _quiet()
    from drxtract.lingosrc.codegen import generate_js_code
    try:
        return generate_js_code(py_parse(lscr, lnam))
    except RecursionError:
        raise
    except Exception:
        return None


# ---------------------------------------------------------------------------------------------- stage G translators

def _ls(s):
    from gen_common import lean_str
    return lean_str(s)


def _lean_list(xs):
    return "[" + ", ".join(xs) + "]"


def _impl_class(obj, meth="process"):
    for k in type(obj).__mro__:
        if meth in vars(k):
            return k.__name__
    return "?"


def _op_kind(obj, mods):
    Opcode, BiOpcode, TriOpcode, Param1Opcode, Param2Opcode = mods
    if isinstance(obj, TriOpcode): return "tri"
    if isinstance(obj, BiOpcode): return "bi"
    if isinstance(obj, Param2Opcode): return "param2"
    if isinstance(obj, Param1Opcode): return "param1"
    return "plain"


def gen_opcodes():
    _quiet()
    import enum, importlib
    ops = importlib.import_module("drxtract.lingosrc.opcodes")
    mods = (ops.Opcode, ops.BiOpcode, ops.TriOpcode, ops.Param1Opcode, ops.Param2Opcode)
    std = {"opcode", "opcode2", "opcode3", "nbytes", "param1", "param2"}

    def info(o):
        attrs = []
        for k, v in vars(o).items():
            if k in std:
                continue
            if isinstance(v, enum.Enum):
                v = v.value
            if not isinstance(v, str):
                raise ValueError(f"opcode attribute {type(o).__name__}.{k} is not a string/enum: {v!r}")
            attrs.append(f"({_ls(k)}, {_ls(v)})")
        if not isinstance(o.nbytes, int) or not (1 <= o.nbytes <= 3):
            raise ValueError("nbytes")
        return (f"{{ cls := {_ls(type(o).__name__)}, impl := {_ls(_impl_class(o))}, nbytes := {o.nbytes}, "
                f"kind := {_ls(_op_kind(o, mods))}, attrs := {_lean_list(attrs)} }}")

    out = ["-- GENERATED by harness/lscr_common.py from drxtract.lingosrc.opcodes (OPCODES, BI_OPCODES, TRI_OPCODES); do not edit",
           "namespace Drx.Gen.Opcodes", "",
           "structure OpInfo where",
           "  cls : String      -- class of the singleton registered under the key",
           "  impl : String     -- class in its MRO that defines `process`",
           "  nbytes : Nat",
           "  kind : String     -- plain | param1 | param2 | bi | tri  (isinstance tests of parse_opcodes)",
           "  attrs : List (String × String)   -- instance attributes other than opcode bytes / operand registers (enum values as text)",
           "  deriving Repr, DecidableEq, Inhabited", ""]
    for nm, d in (("opcodes", ops.OPCODES), ("biOpcodes", ops.BI_OPCODES), ("triOpcodes", ops.TRI_OPCODES)):
        rows = [f"  ({k}, {info(v)})" for k, v in d.items()]
        out.append(f"/-- `{nm.upper() if nm=='opcodes' else nm}`: dict in insertion order, key → singleton -/")
        out.append(f"def {nm} : List (Nat × OpInfo) := [" + ("\n" + ",\n".join(rows) + "\n" if rows else "") + "]")
        out.append("")
    out.append("end Drx.Gen.Opcodes")
    return "\n".join(out) + "\n"


def _dict_rows(d):
    return _lean_list([f"({_ls(str(k))}, {_ls(str(v))})" for k, v in d.items()])


def gen_opnames():
    _quiet()
    import importlib
    op = importlib.import_module("drxtract.lingosrc.ast.operation")
    out = ["-- GENERATED by harness/lscr_common.py from drxtract.lingosrc.ast.operation; do not edit",
           "namespace Drx.Gen.OpNames", ""]
    for lean, py in (("lingoBinOp", "LINGO_BIN_OP"), ("jsBinOp", "JS_BIN_OP"), ("jsUnaOp", "JS_UNA_OP")):
        d = getattr(op, py)
        if not all(isinstance(k, str) and isinstance(v, str) for k, v in d.items()):
            raise ValueError(py)
        out.append(f"/-- `{py}` (dict order) -/")
        out.append(f"def {lean} : List (String × String) := {_dict_rows(d)}")
        out.append("")
    for lean, py in (("binaryOperationNames", "BinaryOperationNames"), ("unaryOperationNames", "UnaryOperationNames"),
                     ("stringOperationNames", "StringOperationNames")):
        e = getattr(op, py)
        out.append(f"/-- enum `{py}`: member → value -/")
        out.append(f"def {lean} : List (String × String) := {_lean_list([f'({_ls(m.name)}, {_ls(m.value)})' for m in e])}")
        out.append("")
    out.append("end Drx.Gen.OpNames")
    return "\n".join(out) + "\n"


def gen_proptables():
    _quiet()
    import enum, importlib
    out = ["-- GENERATED by harness/lscr_common.py from drxtract.lingosrc (property_op, assign_op, ast.variable, ast.operation,",
           "-- ast.constant_val, ast.function_op); do not edit",
           "namespace Drx.Gen.PropTables", ""]

    def emit(lean, v, src):
        if isinstance(v, dict):
            if not all(isinstance(k, str) and isinstance(x, str) for k, x in v.items()):
                raise ValueError(src)
            out.append(f"/-- `{src}` (dict order) -/")
            out.append(f"def {lean} : List (String × String) := {_dict_rows(v)}")
        else:
            vals = [x.value if isinstance(x, enum.Enum) else x for x in v]
            if not all(isinstance(x, str) for x in vals):
                raise ValueError(src)
            out.append(f"/-- `{src}` -/")
            out.append(f"def {lean} : List String := {_lean_list([_ls(x) for x in vals])}")
        out.append("")

    po = importlib.import_module("drxtract.lingosrc.opcodes.property_op")
    seen = []
    for k, v in vars(po).items():
        if k.isupper() and isinstance(v, (list, dict, tuple)):
            seen.append(k)
    want = ["SPECIAL_PROPERTIES", "DATE_TIME_FUNCTIONS", "OPERATION_TYPES", "MENUITEM_PROPERTIES", "NUM_OF_TYPES", "SPRITE_PROPERTIES",
            "CAST_PROPERTIES", "SOUND_PROPERTIES", "VIDEO_PROPERTIES", "SYSTEM_PROPERTIES"]
    if sorted(seen) != sorted(want):
        raise ValueError(f"property_op.py tables changed: {sorted(seen)} (the model knows {sorted(want)})")
    camel = lambda s: "".join(w.capitalize() if i else w.lower() for i, w in enumerate(s.split("_")))
    for k in want:
        emit(camel(k), getattr(po, k), "opcodes.property_op." + k)
    for mod, name, lean in (("opcodes.assign_op", "KNOWN_PROPERTIES", "knownPropertiesAssign"),
                            ("ast.variable", "KNOWN_PROPERTIES", "knownPropertiesVariable"),
                            ("ast.operation", "KNOWN_PROPERTIES", "knownPropertiesOperation"),
                            ("ast.variable", "KNOWN_SYMBOLS", "knownSymbolsVariable"),
                            ("ast.constant_val", "KNOWN_SYMBOLS", "knownSymbolsConstant"),
                            ("ast.function_op", "LIST_FUNCTIONS", "listFunctions"),
                            ("ast.function_op", "GO_WORDS", "goWords"),
                            ("ast.constant_val", "PREDEFINED_CONSTANTS", "predefinedConstants"),
                            ("ast.constant_val", "REPLACEMENT_CONSTANTS", "replacementConstants")):
        m = importlib.import_module("drxtract.lingosrc." + mod)
        emit(lean, getattr(m, name), mod + "." + name)
    out.append("end Drx.Gen.PropTables")
    return "\n".join(out) + "\n"


# ---- inventory of writes inside generator code (Gen/Mutations.lean)

MUTATORS = {"pop", "append", "remove", "reverse", "sort", "extend", "insert", "clear"}
GEN_ROOT = re.compile(r"^(generate_lingo|generate_js|generate_\w*_code)$")


def _fresh_locals(fn):
    """names of the function that are only ever bound to fresh objects (literals, comprehensions, constructor calls,
    string expressions) -- writes through them cannot reach the tree"""
    import ast
    params = {a.arg for a in fn.args.args + fn.args.kwonlyargs}
    bind = {}

    def fresh(v):
        if isinstance(v, (ast.List, ast.Dict, ast.Set, ast.Tuple, ast.Constant, ast.JoinedStr, ast.ListComp, ast.DictComp)):
            return True
        if isinstance(v, ast.Call) and isinstance(v.func, ast.Name) and v.func.id[:1].isupper():
            return True    # constructor
        return False
    for n in ast.walk(fn):
        tgts = []
        if isinstance(n, ast.Assign):
            tgts = [(t, n.value) for t in n.targets]
        elif isinstance(n, ast.AnnAssign) and n.value is not None:
            tgts = [(n.target, n.value)]
        elif isinstance(n, (ast.For, ast.AsyncFor)):
            tgts = [(n.target, None)]
        elif isinstance(n, ast.AugAssign):
            tgts = [(n.target, None)]
        for t, v in tgts:
            if isinstance(t, ast.Name):
                bind.setdefault(t.id, []).append(v is not None and fresh(v))
    return {k for k, v in bind.items() if all(v) and k not in params}


def _base_name(e):
    import ast
    while isinstance(e, (ast.Attribute, ast.Subscript)):
        e = e.value
    if isinstance(e, ast.Name):
        return e.id
    return None      # a call result etc.: treated as non-local


def gen_mutations_inventory():
    """[(module, class or '-', function, kind, target text)] for every write to a non-local object inside
    generate_lingo / generate_js / generate_*_code bodies and the same-package functions/methods they call."""
    import ast
    base = REPO / "drxtract" / "lingosrc"
    files = sorted((base / "ast").glob("*.py")) + sorted((base / "codegen").glob("*.py")) + [base / "util.py"]
    funcs = {}   # (module, class, name) -> FunctionDef
    for f in files:
        mod = f.relative_to(base).with_suffix("").as_posix().replace("/", ".")
        tree = ast.parse(f.read_text())
        for n in tree.body:
            if isinstance(n, ast.FunctionDef):
                funcs[(mod, "-", n.name)] = n
            elif isinstance(n, ast.ClassDef):
                for m in n.body:
                    if isinstance(m, ast.FunctionDef):
                        funcs[(mod, n.name, m.name)] = m
    by_name = {}
    for k in funcs:
        by_name.setdefault(k[2], []).append(k)
    todo = [k for k in funcs if GEN_ROOT.match(k[2])]
    reach = set()
    while todo:
        k = todo.pop()
        if k in reach:
            continue
        reach.add(k)
        for n in ast.walk(funcs[k]):
            if isinstance(n, ast.Call):
                nm = n.func.attr if isinstance(n.func, ast.Attribute) else (n.func.id if isinstance(n.func, ast.Name) else None)
                if nm and nm in by_name and not GEN_ROOT.match(nm):
                    todo += by_name[nm]
    inv = []
    for k in sorted(reach):
        fn = funcs[k]
        fresh = _fresh_locals(fn)
        for n in ast.walk(fn):
            tgts = []
            if isinstance(n, ast.Assign):
                tgts = n.targets
            elif isinstance(n, (ast.AugAssign, ast.AnnAssign)):
                tgts = [n.target]
            elif isinstance(n, ast.Delete):
                tgts = n.targets
            for t in tgts:
                for tt in (t.elts if isinstance(t, ast.Tuple) else [t]):
                    if isinstance(tt, (ast.Attribute, ast.Subscript)):
                        b = _base_name(tt)
                        if b is None or b not in fresh:
                            inv.append((k[0], k[1], k[2], "assign", ast.unparse(tt)))
            if isinstance(n, ast.Call) and isinstance(n.func, ast.Attribute) and n.func.attr in MUTATORS:
                b = _base_name(n.func.value)
                if b is None or b not in fresh:
                    inv.append((k[0], k[1], k[2], "call", ast.unparse(n.func)))
            if isinstance(n, ast.Call) and isinstance(n.func, ast.Name) and n.func.id in ("setattr", "delattr"):
                inv.append((k[0], k[1], k[2], "call", ast.unparse(n)))
    return sorted(set(inv))


def gen_mutations():
    inv = gen_mutations_inventory()
    out = ["-- GENERATED by harness/lscr_common.py (Python `ast` walk over drxtract/lingosrc/ast, codegen, util); do not edit",
           "-- every assignment to an attribute/subscript of a non-local object and every mutating call",
           "-- (pop append remove reverse sort extend insert clear) inside generate_lingo / generate_js / generate_*_code",
           "-- bodies and the functions they call: (module, class, function, kind, target)",
           "namespace Drx.Gen.Mutations", "",
           "def inventory : List (String × String × String × String × String) := ["]
    out.append(",\n".join(f"  ({_ls(a)}, {_ls(b)}, {_ls(c)}, {_ls(d)}, {_ls(e)})" for a, b, c, d, e in inv))
    out += ["]", "", "end Drx.Gen.Mutations"]
    return "\n".join(out) + "\n"


def gen_pycase():
    """str.lower() / title-casing (first character of str.capitalize()) for the non-ASCII characters the table codecs can
    produce, dumped from the running interpreter: (code point, [code points])"""
    from gen_common import TABLE_CODECS
    chars = set()
    for py in TABLE_CODECS.values():
        for b in range(128, 256):
            try:
                chars.add(bytes([b]).decode(py))
            except UnicodeDecodeError:
                pass
    lower, title = [], []
    for c in sorted(chars):
        if ord(c) < 128:
            continue
        if c.lower() != c:
            lower.append((ord(c), [ord(x) for x in c.lower()]))
        t = (c + "x").capitalize()[:-1]
        if t != c:
            title.append((ord(c), [ord(x) for x in t]))
    def rows(l):
        return "[" + ", ".join(f"({k}, [{', '.join(map(str, v))}])" for k, v in l) + "]"
    out = ["-- GENERATED by harness/lscr_common.py from the running CPython (str.lower / str.capitalize of the non-ASCII",
           "-- characters of the table codecs); do not edit", "namespace Drx.Gen.PyCase", "",
           f"def lowerTbl : List (Nat × List Nat) := {rows(lower)}", "",
           f"def titleTbl : List (Nat × List Nat) := {rows(title)}", "", "end Drx.Gen.PyCase"]
    return "\n".join(out) + "\n"


# ---- inventory of module-level state of the decompiler and of the writes that reach it (Gen/ModuleState.lean)

def gen_module_state_inventory(subdirs=("lingosrc",)):
    """over every module of drxtract/<subdirs> (default: drxtract/lingosrc): (a) module-level names bound to a mutable container or an object
    (dict / list / set literals, comprehensions, calls) and class-level ones; (b) every place inside a function or method that can
    change state living longer than one decompilation: a `global` / `nonlocal` statement, an assignment / augmented assignment /
    delete / mutating call whose base name is a module-level name (of the same module or imported), a class attribute written
    through the class name or `cls`, `setattr` / `__dict__` / `globals()` uses. -> (holders, writes)"""
    import ast
    base = REPO / "drxtract" / "lingosrc" if tuple(subdirs) == ("lingosrc",) else REPO / "drxtract"
    holders, writes = [], []
    MUT = MUTATORS | {"update", "setdefault", "add", "discard", "popitem", "appendleft"}
    files = sorted(base.rglob("*.py")) if tuple(subdirs) == ("lingosrc",) else sorted(f for d in subdirs for f in (base / d).rglob("*.py"))
    for f in files:
        mod = f.relative_to(base).with_suffix("").as_posix().replace("/", ".")
        tree = ast.parse(f.read_text())
        modnames, classes = set(), set()
        def is_container(v):
            return isinstance(v, (ast.Dict, ast.List, ast.Set, ast.ListComp, ast.DictComp, ast.SetComp, ast.Call))
        def top(body, owner):
            for n in body:
                tgts, val = [], None
                if isinstance(n, ast.Assign):
                    tgts, val = n.targets, n.value
                elif isinstance(n, ast.AnnAssign) and n.value is not None:
                    tgts, val = [n.target], n.value
                for t in tgts:
                    if isinstance(t, ast.Name):
                        if owner == "-":
                            modnames.add(t.id)
                        if is_container(val):
                            holders.append((mod, owner, t.id, type(val).__name__))
                if isinstance(n, (ast.Import, ast.ImportFrom)) and owner == "-":
                    for a in n.names:
                        modnames.add((a.asname or a.name).split(".")[0])
                if isinstance(n, ast.ClassDef) and owner == "-":
                    classes.add(n.name)
                    top(n.body, n.name)
        top(tree.body, "-")
        def scan(fn, owner):
            params = {a.arg for a in fn.args.args + fn.args.kwonlyargs} | ({fn.args.vararg.arg} if fn.args.vararg else set())
            local = set(params)
            for n in ast.walk(fn):
                if isinstance(n, (ast.Assign, ast.AnnAssign, ast.AugAssign, ast.For)):
                    for t in (n.targets if isinstance(n, ast.Assign) else [n.target]):
                        for tt in (t.elts if isinstance(t, ast.Tuple) else [t]):
                            if isinstance(tt, ast.Name):
                                local.add(tt.id)
            globs = set()
            for n in ast.walk(fn):
                if isinstance(n, (ast.Global, ast.Nonlocal)):
                    globs |= set(n.names)
                    writes.append((mod, owner, fn.name, "global", ",".join(n.names)))
            def shared(b):
                return b is not None and (b in globs or ((b in modnames or b in classes or b == "cls") and b not in local))
            for n in ast.walk(fn):
                tgts = []
                if isinstance(n, ast.Assign):
                    tgts = n.targets
                elif isinstance(n, (ast.AugAssign, ast.AnnAssign)):
                    tgts = [n.target]
                elif isinstance(n, ast.Delete):
                    tgts = n.targets
                for t in tgts:
                    for tt in (t.elts if isinstance(t, ast.Tuple) else [t]):
                        if isinstance(tt, (ast.Attribute, ast.Subscript)) and shared(_base_name(tt)):
                            writes.append((mod, owner, fn.name, "assign", ast.unparse(tt)))
                if isinstance(n, ast.Call) and isinstance(n.func, ast.Attribute) and n.func.attr in MUT and shared(_base_name(n.func.value)):
                    writes.append((mod, owner, fn.name, "call", ast.unparse(n.func)))
                if isinstance(n, ast.Call) and isinstance(n.func, ast.Name) and n.func.id in ("setattr", "delattr", "globals", "vars"):
                    writes.append((mod, owner, fn.name, "call", ast.unparse(n)[:80]))
                if isinstance(n, ast.Attribute) and n.attr == "__dict__":
                    writes.append((mod, owner, fn.name, "dict", ast.unparse(n)[:80]))
                if isinstance(n, ast.Call) and isinstance(n.func, ast.Name) and n.func.id in ("lru_cache", "cache"):
                    writes.append((mod, owner, fn.name, "cache", ast.unparse(n)[:80]))
            for d in fn.decorator_list:
                if "cache" in ast.unparse(d):
                    writes.append((mod, owner, fn.name, "cache", ast.unparse(d)[:80]))
            # a parameter default is evaluated once, when the function is defined: a default that is not an immutable literal
            # (a call, a list / dict / set display, a comprehension) is one object shared by every call that omits the argument
            def immutable(v):
                if isinstance(v, ast.Constant):
                    return True
                if isinstance(v, ast.UnaryOp) and isinstance(v.operand, ast.Constant):
                    return True
                if isinstance(v, ast.Tuple):
                    return all(immutable(e) for e in v.elts)
                if isinstance(v, (ast.Name, ast.Attribute)):
                    return True          # a named constant / enum member: the object it names is inventoried as a holder where it is defined
                return False
            for dflt in list(fn.args.defaults) + [d for d in fn.args.kw_defaults if d is not None]:
                if not immutable(dflt):
                    writes.append((mod, owner, fn.name, "default", ast.unparse(dflt)[:80]))
        for n in tree.body:
            if isinstance(n, ast.FunctionDef):
                scan(n, "-")
            elif isinstance(n, ast.ClassDef):
                for m in n.body:
                    if isinstance(m, ast.FunctionDef):
                        scan(m, n.name)
    return sorted(set(holders)), sorted(set(writes))


def gen_module_state(subdirs=("lingosrc",), namespace="Drx.Gen.ModuleState"):
    holders, writes = gen_module_state_inventory(subdirs)
    out = ["-- GENERATED by harness/lscr_common.py (Python `ast` walk over every module of drxtract/{" + ",".join(subdirs) + "}); do not edit",
           "-- holders: module-level / class-level names bound to a container or object (module, class or '-', name, form)",
           "-- writes: every statement inside a function or method that can change such state (global statements, assignments and",
           "-- mutating calls whose base is a module-level name, class or `cls`, setattr/globals/__dict__, caches, parameter defaults",
           "-- that are not immutable literals):",
           "-- (module, class or '-', function, kind, target)",
           "namespace " + namespace, "",
           "def holders : List (String × String × String × String) := ["]
    out.append(",\n".join(f"  ({_ls(a)}, {_ls(b)}, {_ls(c)}, {_ls(d)})" for a, b, c, d in holders))
    out += ["]", "", "def writes : List (String × String × String × String × String) := ["]
    out.append(",\n".join(f"  ({_ls(a)}, {_ls(b)}, {_ls(c)}, {_ls(d)}, {_ls(e)})" for a, b, c, d, e in writes))
    out += ["]", "", "end " + namespace]
    return "\n".join(out) + "\n"


def gen_lscr_tables():
    return {"Drx/Gen/Opcodes.lean": gen_opcodes(), "Drx/Gen/OpNames.lean": gen_opnames(),
            "Drx/Gen/PropTables.lean": gen_proptables(), "Drx/Gen/Mutations.lean": gen_mutations(),
            "Drx/Gen/ModuleState.lean": gen_module_state(),
            "Drx/Gen/PyCase.lean": gen_pycase()}


if __name__ == "__main__":
    sys.path.insert(0, str(Path(__file__).resolve().parent))
    root = Path(__file__).resolve().parent.parent / "lean"
    for rel, content in gen_lscr_tables().items():
        p = root / rel
        if not p.exists() or p.read_text() != content:
            p.write_text(content)
            print("wrote", rel)


# ---------------------------------------------------------------------------------------------- random well-formed handlers

BASE_NAMES = [b"exitFrame", b"put", b"x", b"y", b"gList", b"count", b"getAt", b"return", b"sound", b"go", b"new", b"birth",
              b"me", b"cast", b"continue", b"exit", b"getPos", b"GetOne", b"findPos", b"getaProp", b"loop", b"next", b"playFile",
              b"ancestor", b"actorList", b"updateMovieEnabled", b"frameLabel", b"result", b"date", b"mouseH", b"stillDown",
              b"menus", b"mNew", b"mDo", b"12", b" 7", b"<x", b"tell_obj", b"_movie", b"f\x8ar", b"Name", b"myProp", b"other",
              b"window", b"append", b"floatPrecision", b"itemDelimiter", b"close", b"stop", b"fadeIn", b"movieName", b"b", b"t"]

SPECIAL_STR = [b"", b"\x08", b"\x03", b"\"", b"\r", b"\t", b"a\tb", b"\\", b"x\\ty", b"& \"", b"a\"b", b"\n", b"\x7f", b"caf\x8e",
               b"& \x08", b"'", b"\r\r", b"a & b", b"tab\there", b"\x00", b"\xff\xfe", b"100", b"field(1)", b"(x)"]

BINOPS = [0x04, 0x05, 0x06, 0x07, 0x08, 0x0A, 0x0B, 0x0C, 0x0D, 0x0E, 0x0F, 0x10, 0x11, 0x12, 0x13, 0x15, 0x16, 0x19, 0x1A]


class Frag:
    """code bytes + offsets of `93 xx xx` exit-repeat jumps still to be patched"""
    def __init__(self, code=b"", exits=()):
        self.code, self.exits = bytes(code), list(exits)

    def __add__(self, o):
        if isinstance(o, (bytes, bytearray)):
            o = Frag(o)
        return Frag(self.code + o.code, self.exits + [e + len(self.code) for e in o.exits])

    def __len__(self):
        return len(self.code)


class HandlerGen:
    """generates one handler as a structured program compiled with the scheme of DESIGN.md Appendix A/D; the expression stack
    is balanced by construction. `wild` (0..1) is the probability of deliberately odd operands (out-of-range indices,
    non-constant property selectors, operands that are not multiples of the record width)."""

    def __init__(self, rng, names, nconst, nargs, nlocals, nhandlers, bpc=6, wild=0.008, hist=None):
        self.r, self.names, self.nconst, self.nargs, self.nlocals, self.nh, self.bpc, self.wild = rng, names, nconst, nargs, nlocals, nhandlers, bpc, wild
        self.hist = hist if hist is not None else {}
        self.idx = {n: i for i, n in reversed(list(enumerate(names)))}

    def h(self, k):
        self.hist[k] = self.hist.get(k, 0) + 1

    def nm(self, want=None):
        if want is not None and want in self.idx and self.idx[want] < 256:
            return self.idx[want]
        if self.r.random() < self.wild:
            return self.r.randrange(0, 256)
        return self.r.randrange(0, min(len(self.names), 256))

    def off(self, n):
        """record offset operand for index < n"""
        if n == 0 or self.r.random() < self.wild:
            return self.r.randrange(0, 256)
        k = self.r.randrange(0, n) * self.bpc
        return k if k < 256 else 0

    def int_(self, v):
        if v == 0 and self.r.random() < 0.7:
            self.h("zero"); return bytes([0x03])
        if -128 <= v < 128 and self.r.random() < 0.85:
            self.h("int8"); return bytes([0x41, v & 0xFF])
        self.h("int16"); return bytes([0x81, (v >> 8) & 0xFF, v & 0xFF])

    def lit(self):
        if self.nconst == 0:
            return self.int_(self.r.randrange(-3, 300))
        k = self.r.randrange(0, self.nconst) * self.bpc
        if self.r.random() < self.wild:
            k = self.r.randrange(0, 70000)
        if k < 256 and self.r.random() < 0.8:
            self.h("lit"); return bytes([0x44, k])
        self.h("lit2"); return bytes([0x84, (k >> 8) & 0xFF, k & 0xFF])

    def args(self, n, depth, paren):
        code = Frag()
        for _ in range(n):
            code += self.expr(depth + 1)
        if n < 256 and self.r.random() < 0.9:
            self.h("args1"); return code + bytes([0x43 if paren else 0x42, n])
        self.h("args2"); return code + bytes([0x83 if paren else 0x82, n >> 8, n & 0xFF])

    def simple(self):
        c = self.r.randrange(9)
        if c == 0: return Frag(self.int_(self.r.choice([0, 1, 2, 5, -1, 127, 128, -128, 255, 256, 32767, -32768, 1000])))
        if c == 1: return Frag(self.lit())
        if c == 2: self.h("global"); return Frag(bytes([self.r.choice([0x48, 0x49]), self.nm()]))
        if c == 3: self.h("var46"); return Frag(bytes([0x46, self.nm()]))
        if c == 4: self.h("prop4a"); return Frag(bytes([0x4A, self.nm()]))
        if c == 5: self.h("the5f"); return Frag(bytes([0x5F, self.nm(self.r.choice([None, b"updateMovieEnabled", b"frameLabel", b"actorList"]))]))
        if c == 6 and self.nargs: self.h("param"); return Frag(bytes([0x4B, self.off(self.nargs)]))
        if c == 7 and self.nlocals: self.h("local"); return Frag(bytes([0x4C, self.off(self.nlocals)]))
        self.h("int8"); return Frag(bytes([0x41, self.r.randrange(0, 20)]))

    def selector(self, lo, hi):
        """the small-integer operand that selects a property; occasionally out of range or not a constant"""
        x = self.r.random()
        if x < self.wild: return self.expr(3)
        if x < 2 * self.wild: return Frag(self.int_(self.r.choice([-1, hi + 1, 200, -7, 0])))
        return Frag(self.int_(self.r.randrange(lo, hi + 1)))

    def chunk8(self, depth):
        """eight chunk values firstChar lastChar firstWord lastWord firstItem lastItem firstLine lastLine"""
        code = Frag()
        for _ in range(4):
            if self.r.random() < 0.35:
                code += self.expr(depth + 2) if self.r.random() < 0.3 else Frag(self.int_(self.r.randrange(1, 9)))
                code += (self.expr(depth + 2) if self.r.random() < 0.2 else Frag(self.int_(self.r.randrange(1, 9)))) if self.r.random() < 0.4 else Frag(bytes([0x03]))
            else:
                code += Frag(bytes([0x03, 0x03]))
        return code

    def expr(self, depth=0):
        if depth > 3 or self.r.random() < 0.35:
            return self.simple()
        c = self.r.randrange(22)
        if c == 0:
            self.h("sym"); return Frag(bytes([0x45, self.nm(self.r.choice([None, b"loop", b"next"]))]))
        if c == 1:
            self.h("unary"); return self.expr(depth + 1) + bytes([self.r.choice([0x09, 0x14, 0x1B])])
        if c in (2, 3, 4):
            self.h("binary"); return self.expr(depth + 1) + self.expr(depth + 1) + bytes([self.r.choice(BINOPS)])
        if c == 5:
            self.h("callext"); return self.args(self.r.choice([0, 1, 1, 2, 3]), depth, True) + bytes([0x57, self.nm(self.r.choice([None, None, b"getPos", b"GetOne", b"new", b"go", b"cast", b"sound", b"count", b"me", b"birth", b"return"]))])
        if c == 6 and self.nh:
            self.h("calllocal"); return self.args(self.r.choice([0, 1, 2]), depth, True) + bytes([0x56, self.r.randrange(self.nh) if self.r.random() > self.wild else self.r.randrange(256)])
        if c == 7:
            self.h("list"); return self.args(self.r.choice([0, 1, 2, 3]), depth, True) + bytes([0x1E])
        if c == 8:
            self.h("proplist")
            n = self.r.choice([0, 1, 2]); code = Frag()
            for _ in range(n):
                code += Frag(bytes([0x45, self.nm()])) + self.expr(depth + 1)
            k = 2 * n + (1 if self.r.random() < self.wild else 0)
            if k > 2 * n: code += self.simple()
            return code + bytes([0x43, k, 0x1F])
        if c == 9:
            self.h("chunkexpr"); return self.chunk8(depth) + self.expr(depth + 1) + bytes([0x17])
        if c == 10:
            self.h("numberof"); return self.expr(depth + 1) + self.selector(1, 4) + bytes([0x5C, 0x01])
        if c == 11:
            self.h("last"); return self.expr(depth + 1) + self.selector(12, 15) + bytes([0x5C, 0x00])
        if c == 12:
            self.h("special"); return self.selector(0, 11) + bytes([0x5C, 0x00])
        if c == 13:
            which = self.r.choice([(0x06, 34), (0x09, 18), (0x04, 1), (0x0D, 16), (0x0B, 18)])
            self.h("objprop%02x" % which[0]); return self.expr(depth + 2) + self.selector(1, which[1]) + bytes([0x5C, which[0]])
        if c == 14:
            self.h("menuitemprop"); return self.expr(depth + 2) + self.expr(depth + 2) + self.selector(1, 4) + bytes([0x5C, 0x03])
        if c == 15:
            k = self.r.choice([1, 2])
            self.h("menuname"); return self.expr(depth + 2) + Frag(self.int_(k if self.r.random() > self.wild else 3)) + bytes([0x5C, 0x02])
        if c == 16:
            self.h("numcast"); return self.selector(1, 3) + bytes([0x5C, 0x08])
        if c == 17:
            self.h("sysprop"); return self.selector(0, 34) + bytes([0x5C, 0x07])
        if c == 18:
            self.h("keyprop"); return Frag(bytes([0x43, 0x00, 0x66, self.nm(self.r.choice([None, b"result", b"date", b"mouseH", b"stillDown"]))]))
        if c == 19:
            self.h("propacc"); return self.expr(depth + 1) + bytes([0x61, self.nm()])
        if c == 20:
            return self.objcall(depth, True)
        if c == 21:
            # peek: duplicate a simple value that was just pushed (no Symbol / list is ever shared)
            self.h("peek"); return self.simple() + bytes([0x64, 0x00]) + bytes([self.r.choice(BINOPS)])
        return self.simple()

    def objcall(self, depth, paren):
        """factory method call: sym m; args; ARGS|args k; target; 58 t"""
        self.h("objcall")
        n = self.r.choice([0, 1, 2])
        code = Frag(bytes([0x45, self.nm(self.r.choice([None, b"mNew", b"mDo"]))]))
        for _ in range(n):
            code += self.expr(depth + 1)
        if self.r.random() < self.wild:
            code = Frag(); n = -1    # empty argument list
        code += bytes([0x43 if paren else 0x42, n + 1])
        ts = [1, 2, 3, 3] + ([4] if self.nargs else []) + ([5, 5] if self.nlocals else [])
        t = self.r.choice(ts) if self.r.random() > self.wild else self.r.choice([0, 4, 5, 6, 7])
        if t in (1, 2, 3):
            tgt = Frag(bytes([self.r.choice([0x46, 0x49]), self.nm(self.r.choice([None, b"me", b"gList"]))])) if self.r.random() < 0.9 else self.simple()
        elif t == 4:
            tgt = Frag(self.int_(self.off(self.nargs)))
        else:
            tgt = Frag(self.int_(self.off(self.nlocals)))
        return code + tgt + bytes([0x58, t])

    def put_target(self, depth):
        """(code after the value+chunk values, opcode second byte low nibble)"""
        k = self.r.choice(["field", "list", "local"] if self.nlocals else ["field", "list"])
        if k == "field": return self.expr(depth + 1), 0x06
        if k == "list": return Frag(bytes([0x46, self.nm()])) if self.r.random() < 0.8 else self.expr(depth + 1), 0x02
        return Frag(self.int_(self.off(self.nlocals))), 0x05

    def simple_stmt(self, depth, in_tell=False):
        c = self.r.randrange(20)
        if c in (0, 1) and self.nlocals:
            self.h("setlocal"); return self.expr(depth) + bytes([0x52, self.off(self.nlocals)])
        if c == 2 and self.nargs:
            self.h("setparam"); return self.expr(depth) + bytes([0x51, self.off(self.nargs)])
        if c == 3:
            self.h("setglobal"); return self.expr(depth) + bytes([self.r.choice([0x4E, 0x4F]), self.nm()])
        if c == 4:
            self.h("setprop"); return self.expr(depth) + bytes([self.r.choice([0x50, 0x60]), self.nm(self.r.choice([None, b"myProp"]))])
        if c in (5, 6):
            if in_tell and self.r.random() < 0.7:
                self.h("tellcall"); return self.args(self.r.choice([0, 1, 2]), depth, False) + bytes([0x63, self.nm(self.r.choice([None, b"go", b"put"]))])
            self.h("callstmt")
            nm = self.r.choice([None, b"put", b"put", b"return", b"sound", b"go", b"exit", b"new", b"append", b"getPos", b"me", b"continue"])
            n = self.r.choice([0, 1, 1, 2, 3])
            if nm == b"go" and self.r.random() < 0.5:
                # go loop / go next / go previous (the word is a symbol), also with other symbols
                return Frag(bytes([0x45, self.nm(self.r.choice([b"loop", b"next", b"playFile", None])), 0x42, 0x01, 0x57, self.nm(nm)]))
            if nm == b"sound":
                code = Frag(bytes([0x45, self.nm(self.r.choice([b"playFile", b"fadeIn", b"stop", None]))]))
                for _ in range(n): code += self.expr(depth + 1)
                return code + bytes([0x42, n + 1, 0x57, self.nm(nm)])
            return self.args(n, depth, False) + bytes([0x57, self.nm(nm)])
        if c == 7 and self.nh:
            self.h("calllocalstmt"); return self.args(self.r.choice([0, 1]), depth, False) + bytes([0x56, self.r.randrange(self.nh)])
        if c == 8:
            mode = self.r.choice([0x10, 0x20, 0x30])
            if self.nlocals and self.r.random() < 0.5:
                self.h("putlocal"); return self.expr(depth) + Frag(self.int_(self.off(self.nlocals))) + bytes([0x59, mode | 0x05])
            self.h("putfield"); return self.expr(depth) + self.expr(depth + 1) + bytes([0x59, mode | 0x06])
        if c == 9:
            tgt, lo = self.put_target(depth)
            mode = self.r.choice([0x10, 0x20, 0x30])
            if lo == 0x06 and mode == 0x10 and self.r.random() < 0.3:
                mode = 0x00     # 5a06 PutIntoFieldOpcode
            self.h("putchunk%02x" % (mode | lo)); return self.expr(depth) + self.chunk8(depth) + tgt + bytes([0x5A, mode | lo])
        if c == 10:
            tgt, lo = self.put_target(depth)
            self.h("delete%02x" % lo); return self.chunk8(depth) + tgt + bytes([0x5B, lo])
        if c == 11:
            self.h("hilite"); return self.chunk8(depth) + self.expr(depth + 1) + bytes([0x18])
        if c == 12:
            which = self.r.choice([(0x06, 34), (0x09, 18), (0x04, 1), (0x0D, 16), (0x0B, 18)])
            self.h("setobjprop%02x" % which[0]); return self.expr(depth + 1) + self.expr(depth) + self.selector(1, which[1]) + bytes([0x5D, which[0]])
        if c == 13:
            self.h("setmenuitem"); return self.expr(depth + 2) + self.expr(depth + 2) + self.expr(depth) + self.selector(1, 4) + bytes([0x5D, 0x03])
        if c == 14:
            self.h("setsys"); return self.expr(depth) + self.selector(0, 34) + bytes([0x5D, 0x07])
        if c == 15:
            self.h("setspecial"); return self.expr(depth) + self.selector(0, 11) + bytes([0x5D, 0x00])
        if c == 16:
            self.h("setpropacc"); return self.expr(depth + 1) + self.expr(depth) + bytes([0x62, self.nm()])
        if c == 17:
            return self.objcall(depth, False)
        if c == 18:
            # `tell obj to f(args)`: args…, obj; ARGS n+1; to_list; 67 f  (statement form uses a plain load_list)
            self.h("tellto")
            n = self.r.choice([0, 1, 2]); code = Frag()
            for _ in range(n): code += self.expr(depth + 1)
            code += self.expr(depth + 1)
            return code + bytes([self.r.choice([0x42, 0x42, 0x43]), n + 1, 0x1E, 0x67, self.nm()])
        if c == 19:
            self.h("exprpop"); return self.expr(depth) + bytes([0x65, 0x01])
        self.h("callstmt"); return self.args(1, depth, False) + bytes([0x57, self.nm(b"put")])

    def block(self, n, depth, in_loop, in_tell=False):
        code = Frag()
        for _ in range(n):
            code += self.stmt(depth, in_loop, in_tell)
        return code

    def stmt(self, depth, in_loop, in_tell=False):
        x = self.r.random()
        if depth >= 3 or x < 0.62:
            return self.simple_stmt(depth, in_tell)
        body_n = lambda: self.r.choice([0, 1, 2]) if self.r.random() < 0.03 else self.r.choice([1, 1, 2, 2, 3])
        if x < 0.74:
            self.h("if")
            c = self.expr(1); a = self.block(body_n(), depth + 1, in_loop, in_tell)
            return c + bytes([0x95]) + (3 + len(a)).to_bytes(2, "big") + a
        if x < 0.82:
            self.h("ifelse")
            c = self.expr(1); a = self.block(body_n(), depth + 1, in_loop, in_tell); b = self.block(body_n(), depth + 1, in_loop, in_tell)
            return c + bytes([0x95]) + (3 + len(a) + 3).to_bytes(2, "big") + a + bytes([0x93]) + (3 + len(b)).to_bytes(2, "big") + b
        if x < 0.86 and in_loop:
            self.h("exitrepeat")
            return Frag(bytes([0x93, 0, 0]), [0])
        if x < 0.90 and (not in_tell or self.r.random() < 0.3):      # tell blocks may nest
            self.h("tell")
            # now and then the block is never closed: context.tell_object stays set for the rest of the script
            return self.expr(1) + bytes([0x1C]) + self.block(body_n(), depth + 1, in_loop, True) + (bytes([0x1D]) if self.r.random() > 4 * self.wild else b"")
        kind = self.r.choice(["while", "with", "down", "in", "withglobal"] if self.nlocals else ["while", "withglobal"])
        body = self.block(body_n(), depth + 1, True, in_tell)
        if kind == "while":
            c = self.expr(1)
            pre, head, tail = Frag(), c, Frag()
        elif kind in ("with", "down"):
            i = self.off(self.nlocals)
            pre = self.expr(1) + bytes([0x52, i])
            # now and then a step other than +-1 or a comparison that does not fit the step (F134, F135): stays a repeat while
            cmp_op = 0x0D if kind == "with" else 0x11
            step = 0x01 if kind == "with" else 0xFF
            if self.r.random() < 0.2:
                cmp_op = self.r.choice([0x0C, 0x0D, 0x0E, 0x0F, 0x10, 0x11])
            if self.r.random() < 0.15:
                step = self.r.choice([0x01, 0xFF, 0x02, 0xFE, 0x00, 0x07])
            head = Frag(bytes([0x4C, i])) + self.expr(1) + bytes([cmp_op])
            tail = Frag(bytes([0x41, step, 0x4C, i, 0x05, 0x52, i]))
            if self.r.random() < 0.05:       # the step is not a constant
                tail = self.expr(1) + bytes([0x4C, i, 0x05, 0x52, i])
        elif kind == "withglobal":
            g = self.nm()
            pre = self.expr(1) + bytes([0x4F, g])
            cmp_op = self.r.choice([0x0C, 0x0D, 0x0E, 0x0F, 0x10, 0x11]) if self.r.random() < 0.2 else 0x0D
            step = self.r.choice([0x01, 0xFF, 0x02, 0xFE]) if self.r.random() < 0.15 else 0x01
            head = Frag(bytes([0x49, g])) + self.expr(1) + bytes([cmp_op])
            tail = Frag(bytes([0x41, step, 0x49, g, 0x05, 0x4F, g]))
        else:
            i = self.off(self.nlocals)
            pre = self.expr(1) + bytes([0x64, 0x00, 0x43, 0x01, 0x57, self.nm(b"count"), 0x41, 0x01])
            head = Frag(bytes([0x64, 0x00, 0x64, 0x02, 0x0D]))
            # the getAt index is the peeked counter; now and then a separately pushed constant (F136): stays a repeat while
            idx_push = bytes([0x64, 0x01]) if self.r.random() > 0.12 else bytes([0x41, self.r.choice([0x01, 0x01, 0x02])])
            body = Frag(bytes([0x64, 0x02]) + idx_push + bytes([0x43, 0x02, 0x57, self.nm(b"getAt"), 0x52, i])) + body
            tail = Frag(bytes([0x41, 0x01, 0x05]))
        inner = head + bytes([0x95]) + (3 + len(body) + len(tail) + 2).to_bytes(2, "big") + body + tail
        dist = len(inner)
        if dist > 255:
            self.h("loop-too-long"); return self.simple_stmt(depth, in_tell)
        self.h("repeat-" + kind)
        total = dist + 2
        code = bytearray(inner.code + bytes([0x54, dist]))
        for e in inner.exits:
            code[e + 1:e + 3] = (total - e).to_bytes(2, "big")
        out = pre + Frag(bytes(code))
        if kind == "in":
            out += bytes([0x65, 0x03])
        return out

    def handler(self, nstmts, factory=False):
        code = self.block(nstmts, 0, False)
        assert not code.exits
        end = bytes([0x02 if factory else 0x01]) if self.r.random() < 0.9 else b""
        return code.code + end


def rand_const(rng):
    c = rng.random()
    if c < 0.55:
        if rng.random() < 0.4:
            return ("s", rng.choice(SPECIAL_STR))
        return ("s", bytes(rng.choice(b"abcXYZ 019_,.;:!?()[]#&\"\\\t\r\n\x08\x03\x7f\x80\xca\xff'") for _ in range(rng.choice([0, 1, 2, 3, 5, 8, 13]))))
    if c < 0.8:
        return ("i", rng.choice([0, 1, -1, 6, 12, 70000, -70000, 2 ** 31 - 1, -2 ** 31, rng.randrange(-2 ** 31, 2 ** 31), rng.randrange(0, 100)]))
    e = rng.choice([0x3FFF, 0x4000, 0x4005, 0x3FF0, 0x3FBC, 0x4040, 0xC000, 0xBFFF, 0x3C00, 0x3BCD, 0x43FE, rng.randrange(0x3F00, 0x4100),
                    rng.randrange(0x3F00, 0x4100), rng.randrange(0x3BC0, 0x4400)])
    if rng.random() < 0.012:
        e = rng.choice([0, 1, 0x7FFF, 0x43FF, 0xFFFF, rng.randrange(0, 0x10000)])
    q = rng.choice([0x8000000000000000, 0xC000000000000000, 0xC00C49BA5E353F7D, 0, 0xFFFFFFFFFFFFFFFF, 0xFFFFFFFFFFFFF800, 0x8000000000000400, 0x8000000000000C00,
                    rng.randrange(0, 2 ** 64), rng.randrange(2 ** 63, 2 ** 64), int(rng.choice([0.1, 0.5, 3.001, 1e10, 123456.789, 2.5e-5])* 2 ** 63) | 2 ** 63])
    return ("f", struct.pack(">HQ", e, q & (2 ** 64 - 1)))


def rand_script(rng, wild=0.008, hist=None, max_stmts=6, names=None):
    """a random script: (lscr bytes, lnam bytes, spec dict); `names` fixes the name table (scripts of one movie share their names,
    so that one name occurs in several roles: symbol, method selector, global, handler)"""
    if names is not None:
        names = list(names)
    else:
        names = list(BASE_NAMES)
        rng.shuffle(names)
        for _ in range(rng.randrange(0, 6)):
            names.append(bytes(rng.choice(b"abcdefgXYZ_09 \xca\x8e<") for _ in range(rng.choice([0, 1, 2, 5, 9]))))
        names = names[:rng.choice([len(names), len(names), 8, 30])] if rng.random() < 0.15 else names
    consts = [rand_const(rng) for _ in range(rng.choice([0, 1, 3, 6, 10, 45]))]
    wide = rng.random() < 0.12
    bpc = 8 if (wide and consts) else 6
    kind = rng.choice(["common", "common", "common", "property", "factory"])
    nh = rng.choice([1, 1, 2, 3])
    idx = {n: i for i, n in reversed(list(enumerate(names)))}
    handlers = []
    for hi in range(nh):
        nargs = rng.choice([0, 0, 1, 2, 3])
        nlocals = rng.choice([0, 1, 2, 4])
        g = HandlerGen(rng, names, len(consts), nargs, nlocals, nh, bpc=bpc, wild=wild, hist=hist)
        code = g.handler(rng.choice([0, 1, 2, 3, max_stmts]), factory=(kind == "factory"))
        args = [rng.randrange(0, len(names)) for _ in range(nargs)]
        if kind == "factory" and nargs:
            args[0] = -1 if rng.random() < 0.8 else idx.get(b"me", 0)
        hname = rng.choice([None, b"new", b"birth", b"mNew", b"exitFrame", b"b", b"t"])
        hglobs = [rng.choice([rng.randrange(0, len(names)), rng.randrange(0, len(names)), -1, len(names)]) for _ in range(rng.choice([0, 0, 0, 1, 3]))]
        handlers.append(dict(name=idx.get(hname, rng.randrange(len(names))) if hname else rng.randrange(-1, len(names)),
                             args=args, locals=[rng.randrange(0, len(names)) for _ in range(nlocals)], globals=hglobs, code=code))
    props = [rng.randrange(0, len(names)) for _ in range(rng.choice([1, 2, 5]))] if kind in ("property", "factory") and rng.random() < 0.9 else []
    if kind == "common" and rng.random() < 0.1:
        props = [rng.randrange(0, len(names))]
    globs = [rng.randrange(0, len(names)) for _ in range(rng.choice([0, 0, 1, 3]))]
    fidx = rng.randrange(0, len(names)) if kind == "factory" else -1
    lscr = build_lscr(handlers, consts, props, globs, scr_num=rng.choice([1, 7, 300]), factory_name_idx=fidx, wide_consts=wide)
    lnam = build_lnam(names)
    return lscr, lnam, dict(kind=kind, nhandlers=nh, nconst=len(consts), wide=wide, nnames=len(names))
