"""Shared tooling of the `lscr` family (C11, C12): fixture list, Lscr/Lnam assembler, fresh-process-equivalent runners
of the real decompiler, the random well-formed bytecode generator and the stage-G translators
(Gen/Opcodes, Gen/OpNames, Gen/PropTables, Gen/Mutations)."""
from __future__ import annotations
import os, re, struct, sys
from pathlib import Path

REPO = Path(os.environ.get("DRX_REPO", "/repo"))
FIXDIR = REPO / "tests" / "files" / "lingo"


# ---------------------------------------------------------------------------------------------- fixtures

def fixture_pairs():
    """(lnam file, lscr file, stem) for the 70 decompiler fixtures, read off the repo's own parameterised tests"""
    out, seen = [], set()
    for test, ext in (("test_lscr2lingo.py", "lingo"), ("test_lscr2js.py", "js")):
        t = (REPO / "tests" / test).read_text()
        for m in re.finditer(r"\[\s*'([^']+\.Lnam)'\s*,\s*\\?\s*'([^']+\.Lscr)'\s*,\s*\\?\s*'([^']+\.%s)'\s*\]" % ext, t):
            k = (m.group(1), m.group(2))
            if k not in seen:
                seen.add(k)
                out.append((m.group(1), m.group(2), m.group(2)[:-5]))
    return out


def fixture_bytes():
    """[(stem, lscr bytes, lnam bytes, expected lingo text|None, expected js text|None)]"""
    out = []
    for lnam, lscr, stem in fixture_pairs():
        exp_l = FIXDIR / (stem + ".lingo")
        exp_j = FIXDIR / (stem + ".js")
        out.append((stem, (FIXDIR / lscr).read_bytes(), (FIXDIR / lnam).read_bytes(),
                    exp_l.read_bytes().decode("utf-8") if exp_l.exists() else None,
                    exp_j.read_bytes().decode("utf-8") if exp_j.exists() else None))
    return out


def game_scripts():
    """[(label, lscr bytes, lnam bytes)] for the Lscr chunks of the movies under tests/files/riff"""
    out = []
    root = REPO / "tests" / "files" / "riff"
    if not root.is_dir():
        return out
    for d in sorted(root.glob("*/files/bin")):
        lnams = sorted(d.glob("*.Lnam"))
        if not lnams:
            continue
        ln = lnams[0].read_bytes()
        for f in sorted(d.glob("*.Lscr")):
            out.append((f"{d.parent.parent.name}/{f.name}", f.read_bytes(), ln))
    return out


# ---------------------------------------------------------------------------------------------- assembler

def build_lnam(names):
    """names: list of bytes (each < 256 long)"""
    body = b"".join(bytes([len(n)]) + n for n in names)
    size = 20 + len(body)
    return struct.pack(">iiiihh", 0, 0, size, size, 0x14, len(names)) + body


def enc_const(c):
    """c = ("s", bytes) | ("i", int32) | ("f", 10 bytes) -> (type, payload bytes or None, inline value)"""
    k, v = c
    if k == "s":
        return 1, struct.pack(">i", len(v) + 1) + v + b"\0"
    if k == "i":
        return 4, None
    if k == "f":
        return 9, struct.pack(">i", len(v)) + v
    raise ValueError(k)


def build_lscr(handlers, constants=(), props=(), globs=(), scr_num=1, cont_scr_num=-1, factory_name_idx=-1, wide_consts=False):
    """handlers: list of dict(name=idx, args=[idx], locals=[idx], code=bytes); constants: list of ("s"|"i"|"f", value);
    props/globs: name-table indices. Layout: header(92) code+name tables, property table, global table, function records,
    constant records, constant data. wide_consts=True emits 8-byte constant records (type as uint32)."""
    pos = 92
    blob = b""
    recs = []
    for h in handlers:
        code = h["code"]
        code_off = pos + len(blob)
        blob += code
        if len(blob) % 2:
            blob += b"\0"
        args_off = pos + len(blob)
        blob += b"".join(struct.pack(">h", a) for a in h.get("args", []))
        loc_off = pos + len(blob)
        blob += b"".join(struct.pack(">h", a) for a in h.get("locals", []))
        recs.append((h["name"], len(code), code_off, len(h.get("args", [])), args_off, len(h.get("locals", [])), loc_off))
    prb = pos + len(blob)
    blob += b"".join(struct.pack(">h", a) for a in props)
    grb = pos + len(blob)
    blob += b"".join(struct.pack(">h", a) for a in globs)
    frb = pos + len(blob)
    for name, clen, coff, na, aoff, nl, loff in recs:
        blob += struct.pack(">hhiihihihiihhi", name, 0, clen, coff, na, aoff, nl, loff, 0, 0, 0, 0, 0, 0)
    crb = pos + len(blob)
    cdata = b""
    crecs = b""
    for c in constants:
        t, payload = enc_const(c)
        if t == 4:
            off = c[1]
        else:
            off = len(cdata)
            cdata += payload
            if len(cdata) % 2:
                cdata += b"\0"
        crecs += (struct.pack(">i", t) if wide_consts else struct.pack(">h", t)) + struct.pack(">i", off)
    blob += crecs
    con = pos + len(blob)
    blob += cdata
    total = pos + len(blob)
    hdr = struct.pack(">iiiihhhhiiiiiihhiii", 0x2d0f36e0, 1, total, total, 0x5c, scr_num, 2, cont_scr_num,
                      -1, 0, 0, 0, 0, 0, factory_name_idx, 0xb, 0, 0x400, 0)
    hdr += struct.pack(">hhhhhhhhhhhhhh", prb, len(globs), 0, grb, len(handlers), 0, frb, len(constants), 0, crb, 0, len(cdata), 0, con)
    assert len(hdr) == 92
    return hdr + blob


# ---------------------------------------------------------------------------------------------- the real code

def _quiet():
    import logging
    logging.disable(logging.CRITICAL)
    if str(REPO) not in sys.path:
        sys.path.insert(0, str(REPO))


def py_parse(lscr: bytes, lnam: bytes):
    _quiet()
    from drxtract.lingosrc.parse import parse_lnam_file_data, parse_lrcr_file_data
    return parse_lrcr_file_data(lscr, parse_lnam_file_data(lnam))


def py_lingo(lscr: bytes, lnam: bytes):
    """fresh parse + generate_lingo_code; None on any exception"""
    _quiet()
    from drxtract.lingosrc.codegen import generate_lingo_code
    try:
        return generate_lingo_code(py_parse(lscr, lnam))
    except RecursionError:
        raise
    except Exception:
        return None


def py_js(lscr: bytes, lnam: bytes):
    _quiet()
    from drxtract.lingosrc.codegen import generate_js_code
    try:
        return generate_js_code(py_parse(lscr, lnam))
    except RecursionError:
        raise
    except Exception:
        return None


# ---------------------------------------------------------------------------------------------- stage G translators

def _ls(s):
    from gen_common import lean_str
    return lean_str(s)


def _lean_list(xs):
    return "[" + ", ".join(xs) + "]"


def _impl_class(obj, meth="process"):
    for k in type(obj).__mro__:
        if meth in vars(k):
            return k.__name__
    return "?"


def _op_kind(obj, mods):
    Opcode, BiOpcode, TriOpcode, Param1Opcode, Param2Opcode = mods
    if isinstance(obj, TriOpcode): return "tri"
    if isinstance(obj, BiOpcode): return "bi"
    if isinstance(obj, Param2Opcode): return "param2"
    if isinstance(obj, Param1Opcode): return "param1"
    return "plain"


def gen_opcodes():
    _quiet()
    import enum, importlib
    ops = importlib.import_module("drxtract.lingosrc.opcodes")
    mods = (ops.Opcode, ops.BiOpcode, ops.TriOpcode, ops.Param1Opcode, ops.Param2Opcode)
    std = {"opcode", "opcode2", "opcode3", "nbytes", "param1", "param2"}

    def info(o):
        attrs = []
        for k, v in vars(o).items():
            if k in std:
                continue
            if isinstance(v, enum.Enum):
                v = v.value
            if not isinstance(v, str):
                raise ValueError(f"opcode attribute {type(o).__name__}.{k} is not a string/enum: {v!r}")
            attrs.append(f"({_ls(k)}, {_ls(v)})")
        if not isinstance(o.nbytes, int) or not (1 <= o.nbytes <= 3):
            raise ValueError("nbytes")
        return (f"{{ cls := {_ls(type(o).__name__)}, impl := {_ls(_impl_class(o))}, nbytes := {o.nbytes}, "
                f"kind := {_ls(_op_kind(o, mods))}, attrs := {_lean_list(attrs)} }}")

    out = ["-- GENERATED by harness/lscr_common.py from drxtract.lingosrc.opcodes (OPCODES, BI_OPCODES, TRI_OPCODES); do not edit",
           "namespace Drx.Gen.Opcodes", "",
           "structure OpInfo where",
           "  cls : String      -- class of the singleton registered under the key",
           "  impl : String     -- class in its MRO that defines `process`",
           "  nbytes : Nat",
           "  kind : String     -- plain | param1 | param2 | bi | tri  (isinstance tests of parse_opcodes)",
           "  attrs : List (String × String)   -- instance attributes other than opcode bytes / operand registers (enum values as text)",
           "  deriving Repr, DecidableEq, Inhabited", ""]
    for nm, d in (("opcodes", ops.OPCODES), ("biOpcodes", ops.BI_OPCODES), ("triOpcodes", ops.TRI_OPCODES)):
        rows = [f"  ({k}, {info(v)})" for k, v in d.items()]
        out.append(f"/-- `{nm.upper() if nm=='opcodes' else nm}`: dict in insertion order, key → singleton -/")
        out.append(f"def {nm} : List (Nat × OpInfo) := [" + ("\n" + ",\n".join(rows) + "\n" if rows else "") + "]")
        out.append("")
    out.append("end Drx.Gen.Opcodes")
    return "\n".join(out) + "\n"


def _dict_rows(d):
    return _lean_list([f"({_ls(str(k))}, {_ls(str(v))})" for k, v in d.items()])


def gen_opnames():
    _quiet()
    import importlib
    op = importlib.import_module("drxtract.lingosrc.ast.operation")
    out = ["-- GENERATED by harness/lscr_common.py from drxtract.lingosrc.ast.operation; do not edit",
           "namespace Drx.Gen.OpNames", ""]
    for lean, py in (("lingoBinOp", "LINGO_BIN_OP"), ("jsBinOp", "JS_BIN_OP"), ("jsUnaOp", "JS_UNA_OP")):
        d = getattr(op, py)
        if not all(isinstance(k, str) and isinstance(v, str) for k, v in d.items()):
            raise ValueError(py)
        out.append(f"/-- `{py}` (dict order) -/")
        out.append(f"def {lean} : List (String × String) := {_dict_rows(d)}")
        out.append("")
    for lean, py in (("binaryOperationNames", "BinaryOperationNames"), ("unaryOperationNames", "UnaryOperationNames"),
                     ("stringOperationNames", "StringOperationNames")):
        e = getattr(op, py)
        out.append(f"/-- enum `{py}`: member → value -/")
        out.append(f"def {lean} : List (String × String) := {_lean_list([f'({_ls(m.name)}, {_ls(m.value)})' for m in e])}")
        out.append("")
    out.append("end Drx.Gen.OpNames")
    return "\n".join(out) + "\n"


def gen_proptables():
    _quiet()
    import enum, importlib
    out = ["-- GENERATED by harness/lscr_common.py from drxtract.lingosrc (property_op, assign_op, ast.variable, ast.operation,",
           "-- ast.constant_val, ast.function_op); do not edit",
           "namespace Drx.Gen.PropTables", ""]

    def emit(lean, v, src):
        if isinstance(v, dict):
            if not all(isinstance(k, str) and isinstance(x, str) for k, x in v.items()):
                raise ValueError(src)
            out.append(f"/-- `{src}` (dict order) -/")
            out.append(f"def {lean} : List (String × String) := {_dict_rows(v)}")
        else:
            vals = [x.value if isinstance(x, enum.Enum) else x for x in v]
            if not all(isinstance(x, str) for x in vals):
                raise ValueError(src)
            out.append(f"/-- `{src}` -/")
            out.append(f"def {lean} : List String := {_lean_list([_ls(x) for x in vals])}")
        out.append("")

    po = importlib.import_module("drxtract.lingosrc.opcodes.property_op")
    seen = []
    for k, v in vars(po).items():
        if k.isupper() and isinstance(v, (list, dict, tuple)):
            seen.append(k)
    want = ["SPECIAL_PROPERTIES", "DATE_TIME_FUNCTIONS", "OPERATION_TYPES", "MENUITEM_PROPERTIES", "NUM_OF_TYPES", "SPRITE_PROPERTIES",
            "CAST_PROPERTIES", "SOUND_PROPERTIES", "VIDEO_PROPERTIES", "SYSTEM_PROPERTIES"]
    if sorted(seen) != sorted(want):
        raise ValueError(f"property_op.py tables changed: {sorted(seen)} (the model knows {sorted(want)})")
    camel = lambda s: "".join(w.capitalize() if i else w.lower() for i, w in enumerate(s.split("_")))
    for k in want:
        emit(camel(k), getattr(po, k), "opcodes.property_op." + k)
    for mod, name, lean in (("opcodes.assign_op", "KNOWN_PROPERTIES", "knownPropertiesAssign"),
                            ("ast.variable", "KNOWN_PROPERTIES", "knownPropertiesVariable"),
                            ("ast.operation", "KNOWN_PROPERTIES", "knownPropertiesOperation"),
                            ("ast.variable", "KNOWN_SYMBOLS", "knownSymbolsVariable"),
                            ("ast.constant_val", "KNOWN_SYMBOLS", "knownSymbolsConstant"),
                            ("ast.function_op", "LIST_FUNCTIONS", "listFunctions"),
                            ("ast.constant_val", "PREDEFINED_CONSTANTS", "predefinedConstants"),
                            ("ast.constant_val", "REPLACEMENT_CONSTANTS", "replacementConstants")):
        m = importlib.import_module("drxtract.lingosrc." + mod)
        emit(lean, getattr(m, name), mod + "." + name)
    out.append("end Drx.Gen.PropTables")
    return "\n".join(out) + "\n"


# ---- inventory of writes inside generator code (Gen/Mutations.lean)

MUTATORS = {"pop", "append", "remove", "reverse", "sort", "extend", "insert", "clear"}
GEN_ROOT = re.compile(r"^(generate_lingo|generate_js|generate_\w*_code)$")


def _fresh_locals(fn):
    """names of the function that are only ever bound to fresh objects (literals, comprehensions, constructor calls,
    string expressions) -- writes through them cannot reach the tree"""
    import ast
    params = {a.arg for a in fn.args.args + fn.args.kwonlyargs}
    bind = {}

    def fresh(v):
        if isinstance(v, (ast.List, ast.Dict, ast.Set, ast.Tuple, ast.Constant, ast.JoinedStr, ast.ListComp, ast.DictComp)):
            return True
        if isinstance(v, ast.Call) and isinstance(v.func, ast.Name) and v.func.id[:1].isupper():
            return True    # constructor
        return False
    for n in ast.walk(fn):
        tgts = []
        if isinstance(n, ast.Assign):
            tgts = [(t, n.value) for t in n.targets]
        elif isinstance(n, ast.AnnAssign) and n.value is not None:
            tgts = [(n.target, n.value)]
        elif isinstance(n, (ast.For, ast.AsyncFor)):
            tgts = [(n.target, None)]
        elif isinstance(n, ast.AugAssign):
            tgts = [(n.target, None)]
        for t, v in tgts:
            if isinstance(t, ast.Name):
                bind.setdefault(t.id, []).append(v is not None and fresh(v))
    return {k for k, v in bind.items() if all(v) and k not in params}


def _base_name(e):
    import ast
    while isinstance(e, (ast.Attribute, ast.Subscript)):
        e = e.value
    if isinstance(e, ast.Name):
        return e.id
    return None      # a call result etc.: treated as non-local


def gen_mutations_inventory():
    """[(module, class or '-', function, kind, target text)] for every write to a non-local object inside
    generate_lingo / generate_js / generate_*_code bodies and the same-package functions/methods they call."""
    import ast
    base = REPO / "drxtract" / "lingosrc"
    files = sorted((base / "ast").glob("*.py")) + sorted((base / "codegen").glob("*.py")) + [base / "util.py"]
    funcs = {}   # (module, class, name) -> FunctionDef
    for f in files:
        mod = f.relative_to(base).with_suffix("").as_posix().replace("/", ".")
        tree = ast.parse(f.read_text())
        for n in tree.body:
            if isinstance(n, ast.FunctionDef):
                funcs[(mod, "-", n.name)] = n
            elif isinstance(n, ast.ClassDef):
                for m in n.body:
                    if isinstance(m, ast.FunctionDef):
                        funcs[(mod, n.name, m.name)] = m
    by_name = {}
    for k in funcs:
        by_name.setdefault(k[2], []).append(k)
    todo = [k for k in funcs if GEN_ROOT.match(k[2])]
    reach = set()
    while todo:
        k = todo.pop()
        if k in reach:
            continue
        reach.add(k)
        for n in ast.walk(funcs[k]):
            if isinstance(n, ast.Call):
                nm = n.func.attr if isinstance(n.func, ast.Attribute) else (n.func.id if isinstance(n.func, ast.Name) else None)
                if nm and nm in by_name and not GEN_ROOT.match(nm):
                    todo += by_name[nm]
    inv = []
    for k in sorted(reach):
        fn = funcs[k]
        fresh = _fresh_locals(fn)
        for n in ast.walk(fn):
            tgts = []
            if isinstance(n, ast.Assign):
                tgts = n.targets
            elif isinstance(n, (ast.AugAssign, ast.AnnAssign)):
                tgts = [n.target]
            elif isinstance(n, ast.Delete):
                tgts = n.targets
            for t in tgts:
                for tt in (t.elts if isinstance(t, ast.Tuple) else [t]):
                    if isinstance(tt, (ast.Attribute, ast.Subscript)):
                        b = _base_name(tt)
                        if b is None or b not in fresh:
                            inv.append((k[0], k[1], k[2], "assign", ast.unparse(tt)))
            if isinstance(n, ast.Call) and isinstance(n.func, ast.Attribute) and n.func.attr in MUTATORS:
                b = _base_name(n.func.value)
                if b is None or b not in fresh:
                    inv.append((k[0], k[1], k[2], "call", ast.unparse(n.func)))
            if isinstance(n, ast.Call) and isinstance(n.func, ast.Name) and n.func.id in ("setattr", "delattr"):
                inv.append((k[0], k[1], k[2], "call", ast.unparse(n)))
    return sorted(set(inv))


def gen_mutations():
    inv = gen_mutations_inventory()
    out = ["-- GENERATED by harness/lscr_common.py (Python `ast` walk over drxtract/lingosrc/ast, codegen, util); do not edit",
           "-- every assignment to an attribute/subscript of a non-local object and every mutating call",
           "-- (pop append remove reverse sort extend insert clear) inside generate_lingo / generate_js / generate_*_code",
           "-- bodies and the functions they call: (module, class, function, kind, target)",
           "namespace Drx.Gen.Mutations", "",
           "def inventory : List (String × String × String × String × String) := ["]
    out.append(",\n".join(f"  ({_ls(a)}, {_ls(b)}, {_ls(c)}, {_ls(d)}, {_ls(e)})" for a, b, c, d, e in inv))
    out += ["]", "", "end Drx.Gen.Mutations"]
    return "\n".join(out) + "\n"


def gen_pycase():
    """str.lower() / title-casing (first character of str.capitalize()) for the non-ASCII characters the table codecs can
    produce, dumped from the running interpreter: (code point, [code points])"""
    from gen_common import TABLE_CODECS
    chars = set()
    for py in TABLE_CODECS.values():
        for b in range(128, 256):
            try:
                chars.add(bytes([b]).decode(py))
            except UnicodeDecodeError:
                pass
    lower, title = [], []
    for c in sorted(chars):
        if ord(c) < 128:
            continue
        if c.lower() != c:
            lower.append((ord(c), [ord(x) for x in c.lower()]))
        t = (c + "x").capitalize()[:-1]
        if t != c:
            title.append((ord(c), [ord(x) for x in t]))
    def rows(l):
        return "[" + ", ".join(f"({k}, [{', '.join(map(str, v))}])" for k, v in l) + "]"
    out = ["-- GENERATED by harness/lscr_common.py from the running CPython (str.lower / str.capitalize of the non-ASCII",
           "-- characters of the table codecs); do not edit", "namespace Drx.Gen.PyCase", "",
           f"def lowerTbl : List (Nat × List Nat) := {rows(lower)}", "",
           f"def titleTbl : List (Nat × List Nat) := {rows(title)}", "", "end Drx.Gen.PyCase"]
    return "\n".join(out) + "\n"


def gen_lscr_tables():
    return {"Drx/Gen/Opcodes.lean": gen_opcodes(), "Drx/Gen/OpNames.lean": gen_opnames(),
            "Drx/Gen/PropTables.lean": gen_proptables(), "Drx/Gen/Mutations.lean": gen_mutations(),
            "Drx/Gen/PyCase.lean": gen_pycase()}


if __name__ == "__main__":
    sys.path.insert(0, str(Path(__file__).resolve().parent))
    root = Path(__file__).resolve().parent.parent / "lean"
    for rel, content in gen_lscr_tables().items():
        p = root / rel
        if not p.exists() or p.read_text() != content:
            p.write_text(content)
            print("wrote", rel)
