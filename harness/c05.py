"""C05 — whole-movie assembly (dir.parse_dir_file_data) links every member to exactly its own resources."""
import hashlib, json, os, struct, sys
from pathlib import Path
from core import Case, canon, hx, REPO
import c01

PROP = "C05"
LEAN_MODULES = ["DrxProps.C05"]
FAMILIES = ["dir"]
RULE = ("synthesised movies: cast slots (empty or a member with its CASt record and 0..n linked resources), resource ids = shuffled "
        "file order, key-table entries shuffled with ignored noise entries, Lctx/Lscr with base and continuation scripts, optional "
        "Lnam/VWLB/VWSC/Fmap chunks present or absent, both byte orders, optional executable prefix. Two modes: 'stub' replaces every "
        "sub-decoder (identically in the Lean driver) by a function returning a token of its inputs, so the assembly logic itself is "
        "compared model-vs-implementation and against a declarative Python assembler; 'real' recombines member bundles harvested from "
        "the repo's own .DIR fixtures and compares parse_dir_file_data with the declarative assembler running the real individual "
        "decoders. distinct_nontrivial = distinct movies whose assembly returned a result with at least one non-empty cast entry.")
TRUSTED = ["harness/c05.py movie encoder and declarative assembler (Python)", "stub decoders are the same functions on both sides by construction (reviewed, not proved)",
           "sampled correspondence", "key/cas/lctx models are those of C17 (lean/Drx/Idx.lean)"]
ASSUMPTIONS = ["members carry links of kinds compatible with their type in the D stream (arbitrary combinations only in the model-vs-implementation stream)"]

# ---------------------------------------------------------------------------------------------- stubs (mirrored in lean/Drx/Drv/Dir.lean)

class _Scr:
    def __init__(self, n, c, tok):
        self.scr_num, self.cont_scr_num, self.tok = n, c, tok


def st_vwcf(d): return {"vwcf": bytes(d).hex()}
def st_lnam(d): return ["lnam:" + bytes(d).hex()]
def st_script(d, names):
    n, c = struct.unpack(">hh", bytes(d[0:4]))
    return _Scr(n, c, "(" + bytes(d).hex() + "|" + canon(names) + ")")
def st_lingo(s): return "L" + s.tok
def st_js(s): return "J" + s.tok
def st_vwlb(d): return ["vwlb:" + bytes(d).hex()]
def st_vwsc(d): return bytes(d)
def st_score(x): return {"score": bytes(x).hex()}
def st_fmap(d): return [{"fmap": bytes(d).hex()}]
def st_cast(d):
    if len(d) == 0:
        raise ValueError("empty")
    r = {"tok": "cast:" + bytes(d).hex()}
    if d[0] == 1:
        r["palette"] = str(struct.unpack(">h", bytes(d[1:3]))[0])
    return r
def st_stxt(d, fontmap): return {"text": "T:" + bytes(d).hex(), "txt_format": [json.loads(canon(fontmap)), bytes(d).hex()]}
def st_snd(d): return {"snd": bytes(d).hex()}
def st_clut(d): return "clut:" + bytes(d).hex()
def st_bitd(castData, clutData, d):
    return {"bmp": bytes(d).hex(), "clut": clutData if isinstance(clutData, str) else ("" if clutData == b"" else repr(clutData)), "cast": json.loads(canon(castData))}

STUBS = dict(parse_vwcf_file_data=st_vwcf, parse_lnam_file_data=st_lnam, parse_lrcr_file_data=st_script, generate_lingo_code=st_lingo,
             generate_js_code=st_js, parse_vwlb_data=st_vwlb, parse_vwsc_file_data=st_vwsc, vwsc_to_score=st_score, parse_fmap_data=st_fmap,
             parse_cast_file_data=st_cast, parse_stxt_data=st_stxt, snd_to_sampled=st_snd, clut2palette=st_clut, bitd2bmp=st_bitd)


# ---------------------------------------------------------------------------------------------- declarative assembler (the spec)

def assemble_spec(m, D):
    """m: movie spec (see gen_movie); D: dict of decoder functions (stubs or the real ones). What the property says the result is."""
    info = D["parse_vwcf_file_data"](m["vwcf"])
    fontmap = D["parse_fmap_data"](m["fmap"]) if m.get("fmap") is not None else []
    markers = D["parse_vwlb_data"](m["vwlb"]) if m.get("vwlb") is not None else []
    score = D["vwsc_to_score"](D["parse_vwsc_file_data"](m["vwsc"])) if m.get("vwsc") is not None else {}
    names = D["parse_lnam_file_data"](m["lnam"]) if m.get("lnam") is not None else []
    lingo, js = {}, {}
    if m.get("scripts") is not None:
        parsed = [D["parse_lrcr_file_data"](s, names) for s in m["scripts"] if s is not None]
        for s in parsed:                       # base scripts, keyed by number
            if s.cont_scr_num < 0:
                lingo[s.scr_num] = D["generate_lingo_code"](s); js[s.scr_num] = D["generate_js_code"](s)
        for s in parsed:                       # continuations appended in index order
            if s.cont_scr_num >= 0:
                lingo[s.cont_scr_num] += "\n" + D["generate_lingo_code"](s); js[s.cont_scr_num] += "\n" + D["generate_js_code"](s)
    # first pass: member records and palettes (a bitmap may refer to a palette member in ANY slot)
    base = [None if s is None else D["parse_cast_file_data"](s["cast"]) for s in m["members"]]
    palettes = {}
    for i, s in enumerate(m["members"]):
        if s is not None:
            for cc, pl in s["links"]:
                if cc == "CLUT":
                    palettes[i] = D["clut2palette"](pl)
    cast = []
    for i, s in enumerate(m["members"]):
        if s is None:
            cast.append({}); continue
        cd = dict(base[i])
        for cc, pl in s["links"]:
            if cc == "STXT":
                t = D["parse_stxt_data"](pl, fontmap); cd["text"] = t["text"]; cd["txt_format"] = t["txt_format"]
            elif cc == "snd ":
                cd["sampled_sound"] = D["snd_to_sampled"](pl)
            elif cc == "CLUT":
                cd["palette"] = palettes[i]
            elif cc == "BITD":
                pv = str(base[i].get("palette", 0))
                pid = int(pv) if pv.lstrip("-").isdigit() else 0     # only a palette NUMBER selects a custom palette
                clut = b""
                if pid > 0:
                    clut = palettes[pid - 1] if (pid - 1) in palettes else base[pid - 1]["palette"]
                snapshot = dict(cd)
                cd["bitmap"] = D["bitd2bmp"](snapshot, clut, pl)
        cast.append(cd)
    return dict(info=info, cast=cast, lingoScr=lingo, jsScr=js, markers=markers, score=score, fontmap=fontmap)


def to_jsonable(x):
    if isinstance(x, (bytes, bytearray)):
        return {"__bytes__": bytes(x).hex()}
    if isinstance(x, dict):
        return {str(k): to_jsonable(v) for k, v in x.items()}
    if isinstance(x, (list, tuple)):
        return [to_jsonable(v) for v in x]
    if isinstance(x, (str, int, bool)) or x is None:
        return x
    if isinstance(x, float):
        return {"__float__": repr(x)}
    if hasattr(x, "__dict__"):
        return {"__obj__": type(x).__name__, **{k: to_jsonable(v) for k, v in vars(x).items()}}
    return repr(x)


def result_json(df):
    return dict(info=to_jsonable(df.info), cast=to_jsonable(df.cast), lingoScr=to_jsonable(df.lingoScr), jsScr=to_jsonable(df.jsScr),
                markers=to_jsonable(df.markers), score=to_jsonable(df.score), fontmap=to_jsonable(df.fontmap))


# ---------------------------------------------------------------------------------------------- encoder

def encode_movie(m, rng=None, info=None):
    """lays the spec movie out as a RIFX file; returns bytes. Resource index of file chunk k is k+1 (entry 0 is RIFX).
    The layout (file order = resource ids, key-entry order, map position) is drawn from m['layout_seed'] so that it can be rebuilt."""
    import random
    rng = random.Random(m["layout_seed"])
    order, prefix = m["order"], m["prefix"]
    items = []   # (tag, fourcc, payload or None(filled later))
    items += [("key", b"KEY*", None), ("cas", b"CAS*", None), ("vwcf", b"VWCF", m["vwcf"])]
    for k, cc in (("fmap", b"Fmap"), ("vwlb", b"VWLB"), ("vwsc", b"VWSC"), ("lnam", b"Lnam")):
        if m.get(k) is not None:
            items.append((k, cc, m[k]))
    if m.get("scripts") is not None:
        items.append(("lctx", b"Lctx", None))
        for i, s in enumerate(m["scripts"]):
            if s is not None:
                items.append((("scr", i), b"Lscr", s))
    for i, s in enumerate(m["members"]):
        if s is not None:
            items.append((("cast", i), b"CASt", s["cast"]))
            for j, (cc, pl) in enumerate(s["links"]):
                items.append((("link", i, j), cc.encode("latin-1"), pl))
    for t in m.get("decoys", []):       # duplicate-type chunks not in any table, placed wherever the shuffle puts them
        items.append(t)
    rng.shuffle(items)
    # optional chunks must be found by locate_chunk = FIRST resource of that type: decoys of singleton types go after the real one
    singles = {}
    for pos, it in enumerate(items):
        if it[0] == "decoy" and it[1] in (b"KEY*", b"CAS*", b"VWCF", b"Fmap", b"VWLB", b"VWSC", b"Lnam", b"Lctx"):
            singles.setdefault(it[1], []).append(pos)
    for cc, poss in singles.items():
        real = next((p for p, it in enumerate(items) if it[1] == cc and it[0] != "decoy"), None)
        if real is None:
            for p in poss:
                items[p] = ("decoy", b"XTRA", items[p][2])
        else:
            first = min(poss + [real])
            if first != real:
                items[first], items[real] = items[real], items[first]
    mmap_at = rng.randrange(1, len(items) + 2)
    order_items = [("imap", b"imap", b"")] + items[:mmap_at - 1] + [("mmap", b"mmap", b"")] + items[mmap_at - 1:]
    ridx = {it[0]: k + 1 for k, it in enumerate(order_items) if it[0] != "decoy"}
    # KEY*
    ents = []
    for i, s in enumerate(m["members"]):
        if s is not None:
            per = [(ridx[("link", i, j)], ridx[("cast", i)], cc.encode("latin-1"), (i, j)) for j, (cc, pl) in enumerate(s["links"])]
            ents.append(per)
    # interleave owners arbitrarily but keep each owner's link order (that order is observable only through dict insertion)
    flat = []
    pools = [list(p) for p in ents if p]
    while pools:
        p = rng.choice(pools)
        flat.append(p.pop(0))
        if not p:
            pools.remove(p)
    for _ in range(m.get("key_noise", 0)):
        flat.insert(rng.randrange(len(flat) + (0 if m.get("key_last_genuine") else 1)), (rng.choice([0, -1, 5]), rng.choice([0, -3]), b"THUM", None))
    last_genuine = m.get("key_last_genuine", False)
    if not last_genuine:
        flat.append((0, 0, b"\0\0\0\0", None))    # trailing entry (the parser never reads the last used entry: F02)
    if info is not None:
        info["last_key_link"] = flat[-1][3] if flat else None
    fcc = lambda cc: cc[::-1] if order == "<" else cc
    key = struct.pack(order + "iii", 12, 12, len(flat)) + b"".join(struct.pack(order + "ii", a, b) + fcc(cc) for a, b, cc, _ in flat)
    key += bytes(12 * m.get("key_slack", 0))
    cas = b"".join(struct.pack(">i", 0 if s is None else ridx[("cast", i)]) for i, s in enumerate(m["members"]))
    payload = {"key": key, "cas": cas}
    if m.get("scripts") is not None:
        refs = [(-1 if s is None else ridx[("scr", i)]) for i, s in enumerate(m["scripts"])]
        hdr_off = 18 + m.get("lctx_gap", 0)
        lctx = struct.pack(">iiiih", 0, 0, len(refs), len(refs), hdr_off) + bytes(m.get("lctx_gap", 0))
        lctx += b"".join(struct.pack(">Iii", 0x1234 + k, r, 0) for k, r in enumerate(refs))
        payload["lctx"] = lctx
    chunks = [(it[1], payload.get(it[0], it[2]) if it[2] is None else it[2]) for it in order_items]
    data, entries, offs, chunks2 = c01.build_movie(order, prefix, chunks, mmap_at)
    return data


# ---------------------------------------------------------------------------------------------- generators

def rb(rng, lo=0, hi=12):
    return bytes(rng.randrange(256) for _ in range(rng.randrange(lo, hi)))


def gen_stub_movie(rng, flavour="valid"):
    """flavour: valid | f28 (palette member in a later slot) | f29 (continuation before base) | f02 (genuine last key entry) | wild"""
    order = rng.choice("<>")
    prefix = rb(rng, 1, 40) if rng.random() < 0.3 else b""
    nslots = rng.choice([1, 2, 3, 5, rng.randrange(1, 13)])
    members = []
    pal_slots = []
    for i in range(nslots):
        r = rng.random()
        if r < 0.2:
            members.append(None); continue
        kind = rng.choice(["text", "sound", "palette", "bitmap", "plain", "plain", "bitmap"])
        links = []
        cast = bytes([2]) + rb(rng)
        if kind == "text":
            links = [("STXT", rb(rng))] + ([("THUM", rb(rng))] if rng.random() < 0.3 else [])
        elif kind == "sound":
            links = [("snd ", rb(rng))]
        elif kind == "palette":
            links = [("CLUT", rb(rng, 1, 9))]; pal_slots.append(i)
        elif kind == "bitmap":
            pid = 0
            if pal_slots and rng.random() < 0.6:
                pid = rng.choice(pal_slots) + 1
            elif rng.random() < 0.3:
                pid = rng.choice([0, -1, -101])
            cast = bytes([1]) + struct.pack(">h", pid) + rb(rng)
            if rng.random() < 0.25:
                cast = bytes([3]) + rb(rng)        # a bitmap record that carries no palette number (any depth other than 8 bits)
            links = [("BITD", rb(rng))]
            if rng.random() < 0.4:
                links.insert(rng.randrange(2), ("THUM", rb(rng)))
        if flavour == "wild" and rng.random() < 0.5:
            links += [(rng.choice(["STXT", "snd ", "CLUT", "BITD", "THUM", "XXXX"]), rb(rng)) for _ in range(rng.randrange(0, 3))]
            if rng.random() < 0.2:
                cast = rb(rng, 0, 3)
        members.append(dict(cast=cast, links=links))
    if flavour == "f28":
        # a bitmap that refers to a palette member stored in a LATER slot
        members.append(dict(cast=bytes([1]) + struct.pack(">h", len(members) + 2) + rb(rng), links=[("BITD", rb(rng))]))
        members.append(dict(cast=bytes([2]) + rb(rng), links=[("CLUT", rb(rng, 1, 9))]))
    m = dict(order=order, prefix=prefix, members=members, vwcf=rb(rng, 0, 20), key_noise=rng.randrange(0, 3), key_slack=rng.randrange(0, 2),
             lctx_gap=rng.choice([0, 0, 2, 6]), layout_seed=rng.randrange(1 << 30))
    for k in ("fmap", "vwlb", "vwsc", "lnam"):
        m[k] = rb(rng) if rng.random() < 0.6 else None
    if rng.random() < 0.7 or flavour == "f29":
        ns = rng.randrange(0, 6) if flavour != "f29" else rng.randrange(2, 5)
        nums = rng.sample(range(0, 40), ns) if ns else []
        scripts = []
        for n in nums:
            scripts.append(struct.pack(">hh", n, -1) + rb(rng))
            if rng.random() < 0.4:
                scripts.append(None)
        conts = [struct.pack(">hh", rng.randrange(100, 120), rng.choice(nums)) + rb(rng) for _ in range(rng.randrange(0, 3))] if nums else []
        if flavour == "f29" and nums:
            conts = conts or [struct.pack(">hh", 111, nums[-1]) + rb(rng)]
            scripts = conts[:1] + scripts + conts[1:]
        else:
            scripts = scripts + conts
        if flavour == "wild" and scripts and rng.random() < 0.3:
            scripts[rng.randrange(len(scripts))] = rb(rng, 0, 4)
        m["scripts"] = scripts
    else:
        m["scripts"] = None
    m["decoys"] = [("decoy", rng.choice([b"CASt", b"STXT", b"BITD", b"Lscr", b"VWSC", b"Fmap", b"junk", b"free"]), rb(rng)) for _ in range(rng.randrange(0, 3))]
    if flavour == "f02":
        m["key_last_genuine"] = True
        if not any(s and s["links"] for s in members):
            members.append(dict(cast=bytes([2]) + rb(rng), links=[("snd ", rb(rng))]))
    return m


def stub_case(rng, flavour="valid"):
    m = gen_stub_movie(rng, flavour)
    data = encode_movie(m)
    P = len(m["prefix"])
    exp = None
    if flavour != "wild":
        exp = canon(to_jsonable(assemble_spec(m, STUBS)))
    spec = dict(mode="stub", flavour=flavour, order=m["order"], prefix_len=P, nslots=len(m["members"]),
                nscripts=len(m["scripts"] or []), sha=hashlib.sha1(data).hexdigest()[:12],
                movie=json.loads(canon(to_jsonable(m))))
    return Case(kind="stub-" + flavour, spec=spec, lines=[f"dir stub {m['order']} {P} {hx(data)}"], expect=[exp])


# ---- real mode: recombine member bundles harvested from the repo's .DIR fixtures

_POOL = None


def harvest():
    """bundles (CASt payload, [(type, payload)...]) and optional chunks from every tests/files/cast/**/*.DIR fixture"""
    global _POOL
    if _POOL is not None:
        return _POOL
    import logging
    logging.disable(logging.CRITICAL)
    from drxtract.riff.riff import parse_riff
    from drxtract.riff.imap import parse_imap
    from drxtract.riff.mmap import parse_mmap
    from drxtract.key.key import parse_key_file_data
    from drxtract.cas.cas import parse_cas_file_data
    pool = dict(members=[], vwcf=[], fmap=[], vwlb=[], vwsc=[], palette_pairs=[])
    for p in sorted((REPO / "tests" / "files" / "cast").rglob("*.DIR")):
        try:
            data = p.read_bytes()
            order = "<" if data[:4] == b"XFIR" else ">"
            r = parse_riff(data, 0, order)
            im = parse_imap(r.chunks[0].data, order)
            mm = parse_mmap(r.get_by_offset(im.offset).data, order)
            def chunk_of(i):
                return r.get_by_offset(mm.resources[i].offset)
            by = lambda cc: next((chunk_of(i).data for i, e in enumerate(mm.resources) if e.chunkID == cc), None)
            key = parse_key_file_data(order, by("KEY*"))
            cas = parse_cas_file_data(by("CAS*"))
            for cc, k in (("VWCF", "vwcf"), ("Fmap", "fmap"), ("VWLB", "vwlb"), ("VWSC", "vwsc")):
                b = by(cc)
                if b is not None and bytes(b) not in pool[k]:
                    pool[k].append(bytes(b))
            # the key fixture drops its last used entry (F02); read the raw table ourselves to get every link
            kb = by("KEY*")
            n = struct.unpack(order + "i", kb[8:12])[0]
            links = {}
            for t in range(n):
                a, b_, cc = struct.unpack(order + "ii4s", kb[12 + 12 * t:24 + 12 * t])
                cc = cc[::-1] if order == "<" else cc
                if a > 0 and b_ > 0:
                    links.setdefault(b_, []).append((cc.decode("latin-1"), bytes(chunk_of(a).data)))
            slots = []
            for ci in cas:
                if ci == 0:
                    slots.append(None)
                else:
                    slots.append(dict(cast=bytes(chunk_of(ci).data), links=[l for l in links.get(ci, []) if l[0] in ("STXT", "snd ", "CLUT", "BITD", "THUM")], src=p.name))
            pool["members"] += [s for s in slots if s is not None]
        except Exception as e:
            continue
    _POOL = pool
    return pool


def real_decoders():
    import drxtract.dir.dir as dd
    return {k: getattr(dd, k) for k in STUBS}


def gen_bitmap_member(rng, depth, pal_id):
    """a Director-4 bitmap CASt record + BITD chunk (harness/bitd_members.py recipe) with a chosen palette number"""
    import bitd_members as bm, bitd_spec as BS, c15
    while True:
        W = rng.randrange(1, 13); H = rng.randrange(1, 6)
        ox = rng.randrange(0, W); oy = rng.randrange(0, H)
        img = bm._rand_img(rng, depth, W, H, ox, oy)
        rows = BS.raw_rows(img, rng.choice([0, 0xFF]))
        raw = depth in (1, 8) and rng.random() < 0.3
        if raw:
            data = b"".join(rows)
        else:
            enc = []
            for r in rows:
                n = len(r)
                cuts = sorted(set(rng.randrange(1, n) for _ in range(rng.randrange(0, 3)))) if n > 1 else []
                enc.append(BS.seg_to_ops(r, cuts, prefer_run=rng.random() < 0.8))
            data = BS.serialise_packed(enc)
            if len(data) == BS.raw_len(img):
                continue
        break
    fields = [rng.randrange(256), bm.DEPTH_CODE[depth], rng.randrange(256), oy, ox, H, W, 0, 0, H, W, rng.randrange(0, H + 1), rng.randrange(0, W + 1)]
    sp = dict(kind="bitmap", fields=fields, tail=[depth, pal_id], pad="", info=dict(sk=0, bd1=0, bd2=0, si=0, unknowns=[], extras=[]))
    return c15.enc_d4(sp), data


_GEN_POOL = None


def generated_pool():
    """chunks produced by the other families' generators: STXT texts, snd resources"""
    global _GEN_POOL
    if _GEN_POOL is None:
        import random
        pool = dict(stxt=[], snd=[])
        try:
            import c16
            for c in c16.cases(random.Random(11), "quick"):
                for l in c.lines:
                    t = l.split()
                    if t[:2] == ["text", "stxt"] and len(t) > 4 and t[2] == "mac_roman" and len(pool["stxt"]) < 60:
                        try:
                            pool["stxt"].append(bytes.fromhex(t[4]))
                        except ValueError:
                            pass
        except Exception:
            pass
        try:
            import c07
            r = random.Random(12)
            for _ in range(40):
                pool["snd"].append(c07.encode(c07.rand_spec(r)))
        except Exception:
            pass
        _GEN_POOL = pool
    return _GEN_POOL


def gen_generated_members(rng, n):
    """members of every kind built by the other families' encoders (c15 records, c16 texts, c07 sounds, bitd_members bitmaps of
    depth 1/8/16/32 with system palettes, and palette members referenced by LATER 8-bit bitmaps through their slot number)"""
    import c15
    gp = generated_pool()
    members, pal_slots = [], []
    for i in range(n):
        r = rng.random()
        if r < 0.12:
            members.append(None); continue
        kind = rng.choice(["bitmap", "bitmap", "bitmap", "field", "sound", "palette", "button", "shape", "script", "richText", "transition"])
        try:
            if kind == "bitmap":
                depth = rng.choice([1, 8, 8, 16, 32])
                pal = rng.choice([0, -1, -2, -101, -100]) if not (depth == 8 and pal_slots and rng.random() < 0.6) else rng.choice(pal_slots) + 1
                rec, bitd = gen_bitmap_member(rng, depth, pal if depth == 8 else rng.choice([0, -1, 5]))
                links = [("BITD", bitd)] + ([("THUM", rb(rng))] if rng.random() < 0.2 else [])
                members.append(dict(cast=rec, links=links)); continue
            sp = c15.rand_member(rng, kind if kind in c15.KINDS else None)
            rec = c15.enc_d4(sp) if rng.random() < 0.5 else c15.enc_d5(sp)
            links = []
            k = sp["kind"]
            if k in ("field", "richText", "button") and gp["stxt"] and rng.random() < 0.8:
                links = [("STXT", rng.choice(gp["stxt"]))]
            elif k == "sound" and gp["snd"] and rng.random() < 0.8:
                links = [("snd ", rng.choice(gp["snd"]))]
            elif k == "palette":
                links = [("CLUT", bytes(rng.randrange(256) for _ in range(6 * 256)))]; pal_slots.append(i)
            elif k == "bitmap":
                links = []
            members.append(dict(cast=rec, links=links))
        except Exception:
            members.append(None)
    return members


def gen_real_movie(rng):
    pool = harvest()
    order = rng.choice("<>")
    prefix = rb(rng, 1, 40) if rng.random() < 0.3 else b""
    n = rng.choice([1, 2, 3, rng.randrange(1, 9)])
    members = []
    if rng.random() < 0.6:
        members = gen_generated_members(rng, n)
    else:
        for _ in range(n):
            if rng.random() < 0.15:
                members.append(None)
            else:
                b = rng.choice(pool["members"])
                members.append(dict(cast=b["cast"], links=list(b["links"])))
    m = dict(order=order, prefix=prefix, members=members, vwcf=rng.choice(pool["vwcf"]), key_noise=rng.randrange(0, 3), scripts=None, layout_seed=rng.randrange(1 << 30),
             fmap=rng.choice(pool["fmap"]) if pool["fmap"] and rng.random() < 0.7 else None,
             vwlb=rng.choice(pool["vwlb"]) if pool["vwlb"] and rng.random() < 0.5 else None,
             vwsc=rng.choice(pool["vwsc"]) if pool["vwsc"] and rng.random() < 0.5 else None, lnam=None)
    return m


def real_case(rng):
    m = gen_real_movie(rng)
    data = encode_movie(m)
    P = len(m["prefix"])
    spec = dict(mode="real", order=m["order"], prefix_len=P, nslots=len(m["members"]), sha=hashlib.sha1(data).hexdigest()[:12],
                movie=json.loads(canon(to_jsonable(m))))
    return Case(kind="real", spec=spec, lines=[f"#dir real {m['order']} {P} {hx(data)}"], expect=[None])


def cases(rng, tier):
    n = dict(quick=(500, 60, 150, 150), thorough=(12000, 600, 3000, 2500), search=(6000, 300, 1500, 1500))[tier]
    out = [stub_case(rng, "valid") for _ in range(n[0])]
    for fl in ("f28", "f29", "f02"):
        out += [stub_case(rng, fl) for _ in range(n[1] // 3)]
    out += [stub_case(rng, "wild") for _ in range(n[2])]
    out += [real_case(rng) for _ in range(n[3])]
    return out


# ---------------------------------------------------------------------------------------------- real code

def _spec_movie(case):
    """rebuild the movie spec (bytes) from its JSON form"""
    def back(x):
        if isinstance(x, dict):
            if set(x) == {"__bytes__"}:
                return bytes.fromhex(x["__bytes__"])
            return {k: back(v) for k, v in x.items()}
        if isinstance(x, list):
            return [back(v) for v in x]
        return x
    m = back(case["spec"]["movie"])
    for s in m["members"]:
        if s is not None:
            s["links"] = [tuple(l) for l in s["links"]]
    m["decoys"] = [tuple(d) for d in m.get("decoys", [])]
    return m


def impl(case):
    import drxtract.dir.dir as dd
    t = case["lines"][0].split()
    order, P, data = t[2], int(t[3]), bytes.fromhex("" if t[4] == "-" else t[4])
    if case["spec"]["mode"] == "stub":
        saved = {k: getattr(dd, k) for k in STUBS}
        try:
            for k, f in STUBS.items():
                setattr(dd, k, f)
            try:
                return [canon(result_json(dd.parse_dir_file_data(order, P, data)))]
            except Exception:
                return [canon("error")]
        finally:
            for k, f in saved.items():
                setattr(dd, k, f)
    else:
        try:
            got = canon(result_json(dd.parse_dir_file_data(order, P, data)))
        except Exception as e:
            got = canon("error")
        return [got]


def oracle(case, io):
    """real mode: the assembled result must equal the composition of the real individual decoders (declarative assembler)"""
    if case["spec"]["mode"] != "real":
        return None
    m = _spec_movie(case)
    try:
        exp = canon(to_jsonable(assemble_spec(m, real_decoders())))
    except Exception as e:
        return None   # an individual decoder rejects one of the harvested chunks in isolation: nothing to compose
    if io[0] != exp:
        return "whole-movie result differs from composing the individual decoders over the designated chunks: expected " + exp[:600] + " got " + io[0][:600]
    return None


def nontrivial(case, io):
    return io[0] != '"error"' and '"cast":[]' not in io[0]


# ---------------------------------------------------------------------------------------------- known findings

def _m_f28(case, f, p):
    """F28: some bitmap member refers (palette id p > 0) to a palette member in the same or a LATER cast slot, and the call raised"""
    if f.got != '"error"' or case["spec"].get("mode") != "stub":
        return False
    m = _spec_movie(case)
    for i, s in enumerate(m["members"]):
        if s is not None and any(cc == "BITD" for cc, _ in s["links"]) and len(s["cast"]) >= 3 and s["cast"][0] == 1:
            pid = struct.unpack(">h", s["cast"][1:3])[0]
            if pid - 1 >= i and pid - 1 < len(m["members"]):
                return True
    return False


def _m_f29(case, f, p):
    """F29: a continuation script is listed in Lctx before its base script, and the call raised"""
    if f.got != '"error"' or case["spec"].get("mode") != "stub":
        return False
    m = _spec_movie(case)
    seen = set()
    for s in m.get("scripts") or []:
        if s is None or len(s) < 4:
            continue
        n, c = struct.unpack(">hh", s[:4])
        if c < 0:
            seen.add(n)
        elif c not in seen:
            return True
    return False


def _m_f02(case, f, p):
    """F02: the result is exactly what the spec gives when the link of the LAST key-table entry is removed (entry never read);
    when the dropped link is a palette (CLUT) that a bitmap refers to, the spec without it has no palette to hand over and the call raises"""
    if case["spec"].get("mode") != "stub":
        return False
    m = _spec_movie(case)
    info = {}
    encode_movie(m, info=info)
    lk = info.get("last_key_link")
    if not lk:
        return False
    i, j = lk
    m["members"][i]["links"] = [l for k, l in enumerate(m["members"][i]["links"]) if k != j]
    try:
        return canon(to_jsonable(assemble_spec(m, STUBS))) == f.got
    except KeyError:
        return f.got == '"error"'
    except Exception:
        return False


MATCHERS = {
    "c05_palette_member_in_later_slot": _m_f28,
    "c05_continuation_before_base": _m_f29,
    "c05_last_key_entry_dropped": _m_f02,
}
