"""C05 — whole-movie assembly (dir.parse_dir_file_data) links every member to exactly its own resources."""
import hashlib, json, os, struct, sys
from pathlib import Path
from core import Case, canon, hx, REPO
import c01

PROP = "C05"
LEAN_MODULES = ["DrxProps.C05", "DrxProps.C05Real"]
FAMILIES = ["dir"]
MODEL_REPRODUCES_KNOWN_FINDINGS = True      # the model is of the code that exists: see core.main, stage K
RULE = ("synthesised movies: cast slots (empty or a member with its CASt record and 0..n linked resources), resource ids = shuffled "
        "file order, key-table entries shuffled with ignored noise entries, Lctx/Lscr with base and continuation scripts, optional "
        "Lnam/VWLB/VWSC/Fmap chunks present or absent, both byte orders, optional executable prefix. Two modes: 'stub' replaces every "
        "sub-decoder (identically in the Lean driver) by a function returning a token of its inputs, so the assembly logic itself is "
        "compared model-vs-implementation and against a declarative Python assembler; 'real' builds whole movies from member bundles "
        "harvested from the repo's own .DIR fixtures and from the other families' generators (c15 records of every kind, bitmaps of depth "
        "1/8/16/32 with system and custom palettes, c16 texts and font maps, c07 sounds, c17 marker/name/configuration chunks, c08 score "
        "files, decompiler fixtures / game scripts / random programs as base and continuation scripts, DRX_ENCODING drawn per movie) and "
        "compares the REAL parse_dir_file_data (a) with the composed Lean models of ALL decoders (driver line `dir real`, "
        "lean/Drx/DirReal.lean) and (b) with the declarative assembler running the real individual decoders; the repo's own 44 movies "
        "(tests/files/cast/**.DIR, tests/files/riff) run whole through (a). "
        "distinct_nontrivial = distinct movies whose assembly returned a result with at least one non-empty cast entry.")
TRUSTED = ["harness/c05.py movie encoder and declarative assembler (Python)", "stub decoders are the same functions on both sides by construction (reviewed, not proved)",
           "sampled correspondence", "key/cas/lctx models are those of C17 (lean/Drx/Idx.lean)",
           "real mode: adapters of lean/Drx/DirReal.lean between the family models and Dir.Decoders (hand-written, exercised by the comparison); "
           "canonical form real_jsonable (bytes as hex, SampledSound by its fields)",
           "in the `dir real` driver path bitmaps above 4096 pixels are decoded by the array-based twin lean/Drx/BitdFast.lean (driver only, "
           "compared with the list model on every C06 case); the theorems are about the list model; line `dir realslow` runs the list model",
           "bitmap records with negative width/height are not compared with the Lean bitmap model"]
ASSUMPTIONS = ["members carry links of kinds compatible with their type in the D stream (arbitrary combinations only in the model-vs-implementation stream)"]

# ---------------------------------------------------------------------------------------------- stubs (mirrored in lean/Drx/Drv/Dir.lean)

class _Scr:
    def __init__(self, n, c, tok):
        self.scr_num, self.cont_scr_num, self.tok = n, c, tok


def st_vwcf(d): return {"vwcf": bytes(d).hex()}
def st_lnam(d): return ["lnam:" + bytes(d).hex()]
def st_script(d, names):
    n, c = struct.unpack(">hh", bytes(d[0:4]))
    return _Scr(n, c, "(" + bytes(d).hex() + "|" + canon(names) + ")")
def st_lingo(s): return "L" + s.tok
def st_js(s): return "J" + s.tok
def st_vwlb(d): return ["vwlb:" + bytes(d).hex()]
def st_vwsc(d): return bytes(d)
def st_score(x): return {"score": bytes(x).hex()}
def st_fmap(d): return [{"fmap": bytes(d).hex()}]
def st_cast(d):
    if len(d) == 0:
        raise ValueError("empty")
    r = {"tok": "cast:" + bytes(d).hex()}
    if d[0] == 1:
        r["palette"] = str(struct.unpack(">h", bytes(d[1:3]))[0])
    return r
def st_stxt(d, fontmap): return {"text": "T:" + bytes(d).hex(), "txt_format": [json.loads(canon(fontmap)), bytes(d).hex()]}
def st_snd(d): return {"snd": bytes(d).hex()}
def st_clut(d): return "clut:" + bytes(d).hex()
def st_bitd(castData, clutData, d):
    return {"bmp": bytes(d).hex(), "clut": clutData if isinstance(clutData, str) else ("" if clutData == b"" else repr(clutData)), "cast": json.loads(canon(castData))}

STUBS = dict(parse_vwcf_file_data=st_vwcf, parse_lnam_file_data=st_lnam, parse_lrcr_file_data=st_script, generate_lingo_code=st_lingo,
             generate_js_code=st_js, parse_vwlb_data=st_vwlb, parse_vwsc_file_data=st_vwsc, vwsc_to_score=st_score, parse_fmap_data=st_fmap,
             parse_cast_file_data=st_cast, parse_stxt_data=st_stxt, snd_to_sampled=st_snd, clut2palette=st_clut, bitd2bmp=st_bitd)


# ---------------------------------------------------------------------------------------------- declarative assembler (the spec)

def assemble_spec(m, D):
    """m: movie spec (see gen_movie); D: dict of decoder functions (stubs or the real ones). What the property says the result is."""
    info = D["parse_vwcf_file_data"](m["vwcf"])
    fontmap = D["parse_fmap_data"](m["fmap"]) if m.get("fmap") is not None else []
    markers = D["parse_vwlb_data"](m["vwlb"]) if m.get("vwlb") is not None else []
    score = D["vwsc_to_score"](D["parse_vwsc_file_data"](m["vwsc"])) if m.get("vwsc") is not None else {}
    names = D["parse_lnam_file_data"](m["lnam"]) if m.get("lnam") is not None else []
    lingo, js = {}, {}
    if m.get("scripts") is not None:
        parsed = [D["parse_lrcr_file_data"](s, names) for s in m["scripts"] if s is not None]
        for s in parsed:                       # base scripts, keyed by number
            if s.cont_scr_num < 0:
                lingo[s.scr_num] = D["generate_lingo_code"](s); js[s.scr_num] = D["generate_js_code"](s)
        for s in parsed:                       # continuations appended in index order
            if s.cont_scr_num >= 0:
                lingo[s.cont_scr_num] += "\n" + D["generate_lingo_code"](s); js[s.cont_scr_num] += "\n" + D["generate_js_code"](s)
    # first pass: member records and palettes (a bitmap may refer to a palette member in ANY slot)
    base = [None if s is None else D["parse_cast_file_data"](s["cast"]) for s in m["members"]]
    palettes = {}
    for i, s in enumerate(m["members"]):
        if s is not None:
            for cc, pl in s["links"]:
                if cc == "CLUT":
                    palettes[i] = D["clut2palette"](pl)
    cast = []
    for i, s in enumerate(m["members"]):
        if s is None:
            cast.append({}); continue
        cd = dict(base[i])
        for cc, pl in s["links"]:
            if cc == "STXT":
                t = D["parse_stxt_data"](pl, fontmap); cd["text"] = t["text"]; cd["txt_format"] = t["txt_format"]
            elif cc == "snd ":
                cd["sampled_sound"] = D["snd_to_sampled"](pl)
            elif cc == "CLUT":
                cd["palette"] = palettes[i]
            elif cc == "BITD":
                pv = str(base[i].get("palette", 0))
                pid = int(pv) if pv.lstrip("-").isdigit() else 0     # only a palette NUMBER selects a custom palette
                clut = b""
                if pid > 0:
                    clut = palettes[pid - 1] if (pid - 1) in palettes else base[pid - 1]["palette"]
                snapshot = dict(cd)
                cd["bitmap"] = D["bitd2bmp"](snapshot, clut, pl)
        cast.append(cd)
    return dict(info=info, cast=cast, lingoScr=lingo, jsScr=js, markers=markers, score=score, fontmap=fontmap)


def to_jsonable(x):
    if isinstance(x, (bytes, bytearray)):
        return {"__bytes__": bytes(x).hex()}
    if isinstance(x, dict):
        return {str(k): to_jsonable(v) for k, v in x.items()}
    if isinstance(x, (list, tuple)):
        return [to_jsonable(v) for v in x]
    if isinstance(x, (str, int, bool)) or x is None:
        return x
    if isinstance(x, float):
        return {"__float__": repr(x)}
    if hasattr(x, "__dict__"):
        return {"__obj__": type(x).__name__, **{k: to_jsonable(v) for k, v in vars(x).items()}}
    return repr(x)


def result_json(df):
    return dict(info=to_jsonable(df.info), cast=to_jsonable(df.cast), lingoScr=to_jsonable(df.lingoScr), jsScr=to_jsonable(df.jsScr),
                markers=to_jsonable(df.markers), score=to_jsonable(df.score), fontmap=to_jsonable(df.fontmap))


def real_jsonable(x):
    """canonical form of a value of the REAL result, field by field the rendering of lean/Drx/DirReal.lean: every family's own
    observable (c17 `dict(info)`/markers, c16 font map/text formats, c15 the member record as it is, c09 the score dict as it is,
    c07 `_sampled_obs` for a SampledSound, c12 the two texts), `bytes` (palette, bitmap) as {"__bytes__": hex}. Anything else
    (a float, an unknown object) is a harness fault, not silently stringified."""
    if isinstance(x, (bytes, bytearray)):
        return {"__bytes__": bytes(x).hex()}
    if isinstance(x, dict):
        return {str(k): real_jsonable(v) for k, v in x.items()}
    if isinstance(x, (list, tuple)):
        return [real_jsonable(v) for v in x]
    if isinstance(x, (str, int, bool)) or x is None:
        return x
    if type(x).__name__ == "SampledSound":
        return dict(ch=x.num_channels, bits=x.bits_per_sample, rate=x.sample_rate, samples=bytes(x.samples).hex())   # = c07._sampled_obs
    raise TypeError("no canonical form for " + type(x).__name__)


def real_result_json(df):
    return dict(info=real_jsonable(df.info), cast=real_jsonable(df.cast), lingoScr=real_jsonable(df.lingoScr), jsScr=real_jsonable(df.jsScr),
                markers=real_jsonable(df.markers), score=real_jsonable(df.score), fontmap=real_jsonable(df.fontmap))


# ---------------------------------------------------------------------------------------------- encoder

def encode_movie(m, rng=None, info=None):
    """lays the spec movie out as a RIFX file; returns bytes. Resource index of file chunk k is k+1 (entry 0 is RIFX).
    The layout (file order = resource ids, key-entry order, map position) is drawn from m['layout_seed'] so that it can be rebuilt."""
    import random
    rng = random.Random(m["layout_seed"])
    order, prefix = m["order"], m["prefix"]
    items = []   # (tag, fourcc, payload or None(filled later))
    items += [("key", b"KEY*", None), ("cas", b"CAS*", None), ("vwcf", b"VWCF", m["vwcf"])]
    for k, cc in (("fmap", b"Fmap"), ("vwlb", b"VWLB"), ("vwsc", b"VWSC"), ("lnam", b"Lnam")):
        if m.get(k) is not None:
            items.append((k, cc, m[k]))
    if m.get("scripts") is not None:
        items.append(("lctx", b"Lctx", None))
        for i, s in enumerate(m["scripts"]):
            if s is not None:
                items.append((("scr", i), b"Lscr", s))
    for i, s in enumerate(m["members"]):
        if s is not None:
            items.append((("cast", i), b"CASt", s["cast"]))
            for j, (cc, pl) in enumerate(s["links"]):
                items.append((("link", i, j), cc.encode("latin-1"), pl))
    for t in m.get("decoys", []):       # duplicate-type chunks not in any table, placed wherever the shuffle puts them
        items.append(t)
    rng.shuffle(items)
    if m.get("decoys_first"):
        items.sort(key=lambda it: it[0] != "decoy")      # stable: every real resource gets an id / offset behind all decoys
    # optional chunks must be found by locate_chunk = FIRST resource of that type: decoys of singleton types go after the real one
    singles = {}
    for pos, it in enumerate(items):
        if it[0] == "decoy" and it[1] in (b"KEY*", b"CAS*", b"VWCF", b"Fmap", b"VWLB", b"VWSC", b"Lnam", b"Lctx"):
            singles.setdefault(it[1], []).append(pos)
    for cc, poss in singles.items():
        real = next((p for p, it in enumerate(items) if it[1] == cc and it[0] != "decoy"), None)
        if real is None:
            for p in poss:
                items[p] = ("decoy", b"XTRA", items[p][2])
        else:
            first = min(poss + [real])
            if first != real:
                items[first], items[real] = items[real], items[first]
    mmap_at = rng.randrange(1, len(items) + 2)
    if m.get("last") is not None:
        # this resource is stored physically last (its header is the final 8 bytes of the file when its payload is empty)
        want = tuple(m["last"]) if isinstance(m["last"], list) else m["last"]
        pos = next(p for p, it in enumerate(items) if it[0] == want)
        items.append(items.pop(pos))
        # (a singleton type is found as the FIRST resource of its type: unlisted chunks of the same type would now come first)
        if items[-1][1] in (b"KEY*", b"CAS*", b"VWCF", b"Fmap", b"VWLB", b"VWSC", b"Lnam", b"Lctx"):
            items = [("decoy", b"XTRA", it[2]) if (it[0] == "decoy" and it[1] == items[-1][1]) else it for it in items]
        mmap_at = rng.randrange(1, len(items) + 1)
    order_items = [("imap", b"imap", b"")] + items[:mmap_at - 1] + [("mmap", b"mmap", b"")] + items[mmap_at - 1:]
    ridx = {it[0]: k + 1 for k, it in enumerate(order_items) if it[0] != "decoy"}
    # KEY*
    ents = []
    for i, s in enumerate(m["members"]):
        if s is not None:
            per = [(ridx[("link", i, j)], ridx[("cast", i)], cc.encode("latin-1"), (i, j)) for j, (cc, pl) in enumerate(s["links"])]
            ents.append(per)
    # interleave owners arbitrarily but keep each owner's link order (that order is observable only through dict insertion)
    flat = []
    pools = [list(p) for p in ents if p]
    while pools:
        p = rng.choice(pools)
        flat.append(p.pop(0))
        if not p:
            pools.remove(p)
    for _ in range(m.get("key_noise", 0)):
        flat.insert(rng.randrange(len(flat) + (0 if m.get("key_last_genuine") else 1)), (rng.choice([0, -1, 5]), rng.choice([0, -3]), b"THUM", None))
    last_genuine = m.get("key_last_genuine", False)
    if not last_genuine:
        flat.append((0, 0, b"\0\0\0\0", None))    # trailing entry (the parser never reads the last used entry: F02)
    if info is not None:
        info["last_key_link"] = flat[-1][3] if flat else None
    fcc = lambda cc: cc[::-1] if order == "<" else cc
    key = struct.pack(order + "iii", 12, 12, len(flat)) + b"".join(struct.pack(order + "ii", a, b) + fcc(cc) for a, b, cc, _ in flat)
    key += bytes(12 * m.get("key_slack", 0))
    cas = b"".join(struct.pack(">i", 0 if s is None else ridx[("cast", i)]) for i, s in enumerate(m["members"]))
    payload = {"key": key, "cas": cas}
    if m.get("scripts") is not None:
        refs = [(-1 if s is None else ridx[("scr", i)]) for i, s in enumerate(m["scripts"])]
        hdr_off = 18 + m.get("lctx_gap", 0)
        lctx = struct.pack(">iiiih", 0, 0, len(refs), len(refs), hdr_off) + bytes(m.get("lctx_gap", 0))
        lctx += b"".join(struct.pack(">Iii", 0x1234 + k, r, 0) for k, r in enumerate(refs))
        payload["lctx"] = lctx
    chunks = [(it[1], payload.get(it[0], it[2]) if it[2] is None else it[2]) for it in order_items]
    data, entries, offs, chunks2 = c01.build_movie(order, prefix, chunks, mmap_at)
    return data


# ---------------------------------------------------------------------------------------------- generators

def rb(rng, lo=0, hi=12):
    return bytes(rng.randrange(256) for _ in range(rng.randrange(lo, hi)))


def gen_stub_movie(rng, flavour="valid"):
    """flavour: valid | f28 (palette member in a later slot) | f29 (continuation before base) | f02 (genuine last key entry) | wild"""
    order = rng.choice("<>")
    prefix = rb(rng, 1, 40) if rng.random() < 0.3 else b""
    nslots = rng.choice([1, 2, 3, 5, rng.randrange(1, 13)])
    members = []
    pal_slots = []
    for i in range(nslots):
        r = rng.random()
        if r < 0.2:
            members.append(None); continue
        kind = rng.choice(["text", "sound", "palette", "bitmap", "plain", "plain", "bitmap"])
        links = []
        cast = bytes([2]) + rb(rng)
        if kind == "text":
            links = [("STXT", rb(rng))] + ([("THUM", rb(rng))] if rng.random() < 0.3 else [])
        elif kind == "sound":
            links = [("snd ", rb(rng))]
        elif kind == "palette":
            links = [("CLUT", rb(rng, 1, 9))]; pal_slots.append(i)
        elif kind == "bitmap":
            pid = 0
            if pal_slots and rng.random() < 0.6:
                pid = rng.choice(pal_slots) + 1
            elif rng.random() < 0.3:
                pid = rng.choice([0, -1, -101])
            cast = bytes([1]) + struct.pack(">h", pid) + rb(rng)
            if rng.random() < 0.25:
                cast = bytes([3]) + rb(rng)        # a bitmap record that carries no palette number (any depth other than 8 bits)
            links = [("BITD", rb(rng))]
            if rng.random() < 0.4:
                links.insert(rng.randrange(2), ("THUM", rb(rng)))
        if flavour == "wild" and rng.random() < 0.5:
            links += [(rng.choice(["STXT", "snd ", "CLUT", "BITD", "THUM", "XXXX"]), rb(rng)) for _ in range(rng.randrange(0, 3))]
            if rng.random() < 0.2:
                cast = rb(rng, 0, 3)
        members.append(dict(cast=cast, links=links))
    if flavour == "f28":
        # a bitmap that refers to a palette member stored in a LATER slot
        members.append(dict(cast=bytes([1]) + struct.pack(">h", len(members) + 2) + rb(rng), links=[("BITD", rb(rng))]))
        members.append(dict(cast=bytes([2]) + rb(rng), links=[("CLUT", rb(rng, 1, 9))]))
    m = dict(order=order, prefix=prefix, members=members, vwcf=rb(rng, 0, 20), key_noise=rng.randrange(0, 3), key_slack=rng.randrange(0, 2),
             lctx_gap=rng.choice([0, 0, 2, 6]), layout_seed=rng.randrange(1 << 30))
    for k in ("fmap", "vwlb", "vwsc", "lnam"):
        m[k] = rb(rng) if rng.random() < 0.6 else None
    if rng.random() < 0.7 or flavour == "f29":
        ns = rng.randrange(0, 6) if flavour != "f29" else rng.randrange(2, 5)
        nums = rng.sample(range(0, 40), ns) if ns else []
        scripts = []
        for n in nums:
            scripts.append(struct.pack(">hh", n, -1) + rb(rng))
            if rng.random() < 0.4:
                scripts.append(None)
        conts = [struct.pack(">hh", rng.randrange(100, 120), rng.choice(nums)) + rb(rng) for _ in range(rng.randrange(0, 3))] if nums else []
        if flavour == "f29" and nums:
            conts = conts or [struct.pack(">hh", 111, nums[-1]) + rb(rng)]
            scripts = conts[:1] + scripts + conts[1:]
        else:
            scripts = scripts + conts
        if flavour == "wild" and scripts and rng.random() < 0.3:
            scripts[rng.randrange(len(scripts))] = rb(rng, 0, 4)
        m["scripts"] = scripts
    else:
        m["scripts"] = None
    m["decoys"] = [("decoy", rng.choice([b"CASt", b"STXT", b"BITD", b"Lscr", b"VWSC", b"Fmap", b"junk", b"free"]), rb(rng)) for _ in range(rng.randrange(0, 3))]
    if flavour == "f02":
        m["key_last_genuine"] = True
        if not any(s and s["links"] for s in members):
            members.append(dict(cast=bytes([2]) + rb(rng), links=[("snd ", rb(rng))]))
    return m


def stub_case(rng, flavour="valid"):
    m = gen_stub_movie(rng, flavour)
    data = encode_movie(m)
    P = len(m["prefix"])
    exp = None
    if flavour != "wild":
        exp = canon(to_jsonable(assemble_spec(m, STUBS)))
    spec = dict(mode="stub", flavour=flavour, order=m["order"], prefix_len=P, nslots=len(m["members"]),
                nscripts=len(m["scripts"] or []), sha=hashlib.sha1(data).hexdigest()[:12],
                movie=json.loads(canon(to_jsonable(m))))
    return Case(kind="stub-" + flavour, spec=spec, lines=[f"dir stub {m['order']} {P} {hx(data)}"], expect=[exp])


def last_chunk_cases(rng, tier):
    """position of a resource inside the file must not matter: every kind of resource in turn is stored physically LAST, once with its
    payload and (where the decoders accept that) once EMPTY, so that the file ends right after an 8-byte chunk header: an empty cast
    table (movie without members), an empty thumbnail / text / sound / bitmap chunk linked to a member, empty optional chunks"""
    out = []
    reps = dict(quick=2, thorough=12, search=6)[tier]
    for _ in range(reps):
        for what in ("cas-empty", "link-empty", "link", "vwcf-empty", "cast", "opt-empty", "scr"):
            for _try in range(300):
                m = gen_stub_movie(rng, "valid")
                if what == "cas-empty":
                    m["members"] = []; m["last"] = "cas"; break
                if what == "vwcf-empty":
                    m["vwcf"] = b""; m["last"] = "vwcf"; break
                if what == "opt-empty":
                    k = rng.choice(["fmap", "vwlb", "vwsc", "lnam"]); m[k] = b""; m["last"] = k; break
                if what == "scr" and m.get("scripts") and any(s is not None for s in m["scripts"]):
                    i = rng.choice([i for i, s in enumerate(m["scripts"]) if s is not None]); m["last"] = ("scr", i); break
                own = [(i, j) for i, s in enumerate(m["members"]) if s for j, _ in enumerate(s["links"])]
                if what in ("link", "link-empty") and own:
                    i, j = rng.choice(own)
                    if what == "link-empty":
                        m["members"][i]["links"][j] = (m["members"][i]["links"][j][0], b"")
                    m["last"] = ("link", i, j); break
                if what == "cast" and any(m["members"]):
                    m["last"] = ("cast", rng.choice([i for i, s in enumerate(m["members"]) if s])); break
            else:
                continue
            data = encode_movie(m)
            P = len(m["prefix"])
            exp = canon(to_jsonable(assemble_spec(m, STUBS)))
            spec = dict(mode="stub", flavour="last-" + what, order=m["order"], prefix_len=P, nslots=len(m["members"]),
                        nscripts=len(m["scripts"] or []), sha=hashlib.sha1(data).hexdigest()[:12],
                        movie=json.loads(canon(to_jsonable(m))))
            out.append(Case(kind="stub-last-" + what, spec=spec, lines=[f"dir stub {m['order']} {P} {hx(data)}"], expect=[exp]))
    return out


# ---- real mode: recombine member bundles harvested from the repo's .DIR fixtures

_POOL = None


def harvest():
    """bundles (CASt payload, [(type, payload)...]) and optional chunks from every tests/files/cast/**/*.DIR fixture"""
    global _POOL
    if _POOL is not None:
        return _POOL
    import logging
    logging.disable(logging.CRITICAL)
    # the fixtures are read with the harness's own walker (RIFX header, imap -> mmap -> chunk headers), never with the repo's
    # parsers: a change to those must not be able to empty or skew the pool the cases are drawn from
    pool = dict(members=[], vwcf=[], fmap=[], vwlb=[], vwsc=[], palette_pairs=[])
    for p in sorted((REPO / "tests" / "files" / "cast").rglob("*.DIR")):
        try:
            data = p.read_bytes()
            order = "<" if data[:4] == b"XFIR" else ">"
            U = lambda fmt, off: struct.unpack(order + fmt, data[off:off + struct.calcsize(fmt)])
            mmap_off = U("ii", 20)[1]
            hdr, stride, _maxc, used = U("hhii", mmap_off + 8)
            res = []
            for i in range(used):
                e = mmap_off + 8 + hdr + i * stride
                cc = data[e:e + 4][::-1] if order == "<" else data[e:e + 4]
                res.append((cc.decode("latin-1"), U("i", e + 8)[0]))
            class _Ch:
                def __init__(self, off):
                    self.data = data[off + 8:off + 8 + U("i", off + 4)[0]]
            def chunk_of(i):
                return _Ch(res[i][1])
            by = lambda cc: next((chunk_of(i).data for i, e in enumerate(res) if e[0] == cc), None)
            casb = by("CAS*")
            cas = [struct.unpack(">i", casb[k:k + 4])[0] for k in range(0, len(casb) - 3, 4)]
            for cc, k in (("VWCF", "vwcf"), ("Fmap", "fmap"), ("VWLB", "vwlb"), ("VWSC", "vwsc")):
                b = by(cc)
                if b is not None and bytes(b) not in pool[k]:
                    pool[k].append(bytes(b))
            # the key fixture drops its last used entry (F02); read the raw table ourselves to get every link
            kb = by("KEY*")
            n = struct.unpack(order + "i", kb[8:12])[0]
            links = {}
            for t in range(n):
                a, b_, cc = struct.unpack(order + "ii4s", kb[12 + 12 * t:24 + 12 * t])
                cc = cc[::-1] if order == "<" else cc
                if a > 0 and b_ > 0:
                    links.setdefault(b_, []).append((cc.decode("latin-1"), bytes(chunk_of(a).data)))
            slots = []
            for ci in cas:
                if ci == 0:
                    slots.append(None)
                else:
                    slots.append(dict(cast=bytes(chunk_of(ci).data), links=[l for l in links.get(ci, []) if l[0] in ("STXT", "snd ", "CLUT", "BITD", "THUM")], src=p.name))
            # a bitmap that uses a custom palette names the SLOT of the palette member (number = slot + 1): remember that bundle,
            # so that a recombined movie can put it at the slot the bitmap's record names
            from drxtract.cast.cast import parse_cast_file_data
            for s in slots:
                if s is not None and any(l[0] == "BITD" for l in s["links"]):
                    try:
                        pv = str(parse_cast_file_data(s["cast"]).get("palette", 0))
                        pid = int(pv) if pv.lstrip("-").isdigit() else 0
                        if 0 < pid <= len(slots) and slots[pid - 1] is not None and any(l[0] == "CLUT" for l in slots[pid - 1]["links"]):
                            s["pal_slot"], s["pal_bundle"] = pid - 1, slots[pid - 1]
                    except Exception:
                        pass
            pool["members"] += [s for s in slots if s is not None]
        except Exception as e:
            continue
    _POOL = pool
    return pool


def real_decoders():
    import drxtract.dir.dir as dd
    return {k: getattr(dd, k) for k in STUBS}


def gen_bitmap_member(rng, depth, pal_id):
    """a Director-4 bitmap CASt record + BITD chunk (harness/bitd_members.py recipe) with a chosen palette number"""
    import bitd_members as bm, bitd_spec as BS, c15
    while True:
        W = rng.randrange(1, 13); H = rng.randrange(1, 6)
        ox = rng.randrange(0, W); oy = rng.randrange(0, H)
        img = bm._rand_img(rng, depth, W, H, ox, oy)
        rows = BS.raw_rows(img, rng.choice([0, 0xFF]))
        raw = depth in (1, 8) and rng.random() < 0.3
        if raw:
            data = b"".join(rows)
        else:
            enc = []
            for r in rows:
                n = len(r)
                cuts = sorted(set(rng.randrange(1, n) for _ in range(rng.randrange(0, 3)))) if n > 1 else []
                enc.append(BS.seg_to_ops(r, cuts, prefer_run=rng.random() < 0.8))
            data = BS.serialise_packed(enc)
            if len(data) == BS.raw_len(img):
                continue
        break
    fields = [rng.randrange(256), bm.DEPTH_CODE[depth], rng.randrange(256), oy, ox, H, W, 0, 0, H, W, rng.randrange(0, H + 1), rng.randrange(0, W + 1)]
    sp = dict(kind="bitmap", fields=fields, tail=[depth, pal_id], pad="", info=dict(sk=0, bd1=0, bd2=0, si=0, unknowns=[], extras=[]))
    return c15.enc_d4(sp), data


_GEN_POOL = None
REAL_CODECS = ["default"] * 14 + ["mac_roman"] * 3 + ["latin_1"] * 3 + ["cp1252"] * 2 + ["utf_8", "ascii"]
# The DRIVER decodes bitmaps above 4096 pixels with the array-based twin of the bitmap model (lean/Drx/BitdFast.lean through
# `realDecodersFast` in lean/Drx/Drv/Dir.lean; porteus.DIR 855x708 in about 2 s), so every movie is sent to the Lean driver. The caps
# only keep a pathological generated record (say 30000 x 30000) away from both sides.
LEAN_PIXEL_CAP = dict(quick=2_000_000, thorough=2_000_000, search=2_000_000)        # recombined movies
FIXTURE_PIXEL_CAP = dict(quick=2_000_000, thorough=2_000_000, search=2_000_000)     # the repo's own movies
SLOW_MODEL_PIXELS = 20_000   # a recombined movie whose bitmaps stay below this also goes through `dir realslow` (list model only)
PARTS_PIXELS = 60_000      # a repo movie above this is compared once (whole); below, also part by part (`dir realparts`)


def _hexes0(case):
    h = case.spec["hexes"][0]
    return b"" if h in (None, "-") else bytes.fromhex(h)


def generated_pool():
    """chunks produced by the OTHER families' generators (their spec objects encoded by their own encoders): STXT texts and font maps
    (c16), snd resources (c07), marker tables, name tables and movie configurations (c17), score files (c08), scripts (lscr_common:
    the 70 decompiler fixtures grouped by name table, the game scripts, random well-formed programs)"""
    global _GEN_POOL
    if _GEN_POOL is None:
        import random
        pool = dict(stxt=[], snd=[], fmap=[], vwlb=[], vwcf=[], vwsc=[], script_groups=[])
        try:
            import c16
            r = random.Random(11)
            for _ in range(60):
                pool["stxt"].append(_hexes0(c16.stxt_case(r, codec="mac_roman", nruns=r.choice([0, 1, 2, 3, 8]), text=c16.rtext(r, 120))))
            for _ in range(30):
                pool["fmap"].append(_hexes0(c16.fmap_case(r, codec="mac_roman", fonts=c16.rfonts(r, r.choice([0, 1, 2, 3, 6])))))
        except Exception:
            pass
        try:
            import c07
            r = random.Random(12)
            for _ in range(40):
                pool["snd"].append(c07.encode(c07.rand_spec(r)))
        except Exception:
            pass
        try:
            import c17
            r = random.Random(13)
            for _ in range(30):
                n = r.choice([0, 1, 2, 3, 7])
                pool["vwlb"].append(_hexes0(c17.vwlb_case(r, codec="mac_roman", markers=[(c17.r16(r), c17.rname(r, 20)) for _ in range(n)])))
            for _ in range(30):
                pool["vwcf"].append(bytes.fromhex(c17.vwcf_case(r).spec["hexes"][0]))
        except Exception:
            pass
        try:
            import c08
            r = random.Random(14)
            for _ in range(24):
                c = c08.score_case(r, cc=r.choice([3, 4, 6]), nframes=r.choice([1, 2, 3, 5]), strategies=[r.choice(["full", "min", "mixed", "random"])], with_ser=False)
                pool["vwsc"].append(bytes.fromhex(c.lines[0].split()[2]))
        except Exception:
            pass
        try:
            import lscr_common as L
            groups = {}
            for stem, lscr, lnam, _, _ in L.fixture_bytes():
                groups.setdefault(lnam, []).append(lscr)
            for label, lscr, lnam in L.game_scripts():
                groups.setdefault(lnam, []).append(lscr)
            pool["script_groups"] = [(ln, ls) for ln, ls in groups.items()]
            r = random.Random(15)
            for _ in range(60):
                lscr, lnam, _ = L.rand_script(r)
                pool["script_groups"].append((lnam, [lscr]))
        except Exception:
            pass
        _GEN_POOL = pool
    return _GEN_POOL


def gen_odd_bitmap_member(rng):
    """a bitmap record with small but arbitrary numbers (zero/negative sizes, padding beyond the image, any depth code) and a BITD
    chunk of arbitrary bytes: the malformed side of the bitmap branch"""
    import c15
    sp = c15.rand_member(rng, "bitmap")
    f = list(sp["fields"])
    small = lambda: rng.choice([0, 1, 2, 3, 5, 8, 17, rng.randrange(0, 24), rng.choice([-1, -2, 0, 40])])
    f[3], f[4], f[5], f[6] = rng.choice([0, 0, 1, 2, -1, small()]), rng.choice([0, 0, 1, 2, -1, small()]), small(), small()
    f[1] = rng.choice([0x00, 0x80, 0x81, 0x82, 0x84, 0x85, 0x8A, 7])
    sp["fields"] = f
    if sp["tail"] is not None:
        sp["tail"] = [rng.choice([0, 1, 4, 8, 8, 16, 24, 32, 2, -1]), sp["tail"][1]]
    rec = c15.enc_d4(sp) if rng.random() < 0.6 else c15.enc_d5(sp)
    return rec, rb(rng, 0, 40)


def gen_generated_members(rng, n):
    """members of every kind built by the other families' encoders (c15 records, c16 texts, c07 sounds, bitd_members bitmaps of
    depth 1/8/16/32 with system palettes, and palette members referenced by LATER 8-bit bitmaps through their slot number)"""
    import c15
    gp = generated_pool()
    members, pal_slots = [], []
    for i in range(n):
        r = rng.random()
        if r < 0.12:
            members.append(None); continue
        kind = rng.choice(["bitmap", "bitmap", "bitmap", "field", "sound", "palette", "palette", "button", "shape", "script", "richText", "transition", "oddbitmap"])
        if pal_slots and rng.random() < 0.3:
            kind = "bitmap"
        try:
            if kind == "bitmap":
                depth = rng.choice([1, 8, 8, 16, 32]) if not (pal_slots and rng.random() < 0.5) else 8
                pal = rng.choice([0, -1, -2, -101, -100]) if not (depth == 8 and pal_slots and rng.random() < 0.75) else rng.choice(pal_slots) + 1
                rec, bitd = gen_bitmap_member(rng, depth, pal if depth == 8 else rng.choice([0, -1, 5]))
                links = [("BITD", bitd)] + ([("THUM", rb(rng))] if rng.random() < 0.2 else [])
                members.append(dict(cast=rec, links=links)); continue
            if kind == "oddbitmap":
                rec, bitd = gen_odd_bitmap_member(rng)
                members.append(dict(cast=rec, links=[("BITD", bitd)])); continue
            sp = c15.rand_member(rng, kind if kind in c15.KINDS else None)
            rec = c15.enc_d4(sp) if rng.random() < 0.5 else c15.enc_d5(sp)
            links = []
            k = sp["kind"]
            if k in ("field", "richText", "button") and gp["stxt"] and rng.random() < 0.8:
                links = [("STXT", rng.choice(gp["stxt"]))]
            elif k == "sound" and gp["snd"] and rng.random() < 0.8:
                links = [("snd ", rng.choice(gp["snd"]))]
            elif k == "palette":
                links = [("CLUT", bytes(rng.randrange(256) for _ in range(6 * rng.choice([256, 256, 256, 256, 256, 300, 255]))))]; pal_slots.append(i)
            elif k == "bitmap":
                links = []
            members.append(dict(cast=rec, links=links))
        except Exception:
            members.append(None)
    return members


def patch_script_numbers(lscr, scr_num, cont):
    """the script number / continuation number words of an Lscr header (offsets 18 and 22, big-endian signed 16 bit)"""
    if len(lscr) < 24:
        return lscr
    return lscr[:18] + struct.pack(">h", scr_num) + lscr[20:22] + struct.pack(">h", cont) + lscr[24:]


def gen_script_set(rng):
    """(lnam chunk or None, scripts list with None = empty Lctx slot): 0..4 scripts decoded under ONE name table; base scripts get
    DISTINCT numbers, continuation scripts name an EARLIER base (the D stream's assumptions, as in stub mode: F29 and a base
    that restarts a number after a continuation are left to the stub-mode model-vs-implementation stream)"""
    gp = generated_pool()
    if not gp["script_groups"]:
        return None, None
    lnam, pool = rng.choice(gp["script_groups"])
    k = rng.choice([0, 1, 1, 2, 3, 4])
    nums = rng.sample([1, 2, 3, 7, 300, 0, 32767] + list(range(10, 40)), k)
    scripts, bases = [], []
    for j in range(k):
        s = rng.choice(pool)
        if rng.random() < 0.08:
            s = rng.choice(rng.choice(gp["script_groups"])[1])      # a script compiled against ANOTHER name table
        if bases and rng.random() < 0.35:
            s = patch_script_numbers(s, rng.randrange(100, 130), rng.choice(bases))
        else:
            s = patch_script_numbers(s, nums[j], -1)
            if len(s) >= 24:
                bases.append(nums[j])
        scripts.append(s)
        if rng.random() < 0.25:
            scripts.append(None)
    if rng.random() < 0.04:
        lnam = None
    return lnam, scripts


def gen_real_movie(rng):
    pool = harvest()
    gp = generated_pool()
    order = rng.choice("<>")
    prefix = rb(rng, 1, 40) if rng.random() < 0.3 else b""
    n = rng.choice([1, 2, 3, rng.randrange(1, 9)])
    members = []
    if rng.random() < 0.6:
        members = gen_generated_members(rng, n)
    else:
        for _ in range(n):
            if rng.random() < 0.15:
                members.append(None)
            else:
                b = rng.choice(pool["members"])
                if "pal_bundle" in b and rng.random() < 0.85:
                    # keep the palette member of the bitmap's own movie at the slot the bitmap's record names
                    k, pb = b["pal_slot"], b["pal_bundle"]
                    while len(members) < k:
                        members.append(None)
                    if len(members) == k:
                        members.append(dict(cast=pb["cast"], links=list(pb["links"])))
                    else:
                        members[k] = dict(cast=pb["cast"], links=list(pb["links"]))
                members.append(dict(cast=b["cast"], links=list(b["links"])))
    pick = lambda fix, gen, p: (rng.choice((fix if (fix and (not gen or rng.random() < 0.5)) else gen)) if (fix or gen) and rng.random() < p else None)
    m = dict(order=order, prefix=prefix, members=members, vwcf=pick(pool["vwcf"], gp["vwcf"], 1.1), key_noise=rng.randrange(0, 3),
             key_slack=rng.randrange(0, 2), lctx_gap=rng.choice([0, 0, 2, 6]), layout_seed=rng.randrange(1 << 30),
             fmap=pick(pool["fmap"], gp["fmap"], 0.7), vwlb=pick(pool["vwlb"], gp["vwlb"], 0.5), vwsc=pick(pool["vwsc"], gp["vwsc"], 0.5),
             lnam=None, scripts=None, codec=rng.choice(REAL_CODECS))
    if rng.random() < 0.6:
        m["lnam"], m["scripts"] = gen_script_set(rng)
    m["decoys"] = [("decoy", rng.choice([b"CASt", b"STXT", b"BITD", b"Lscr", b"VWSC", b"Fmap", b"junk", b"free"]), rb(rng)) for _ in range(rng.randrange(0, 3))]
    return m


def _max_pixels(m):
    """largest width*height among the bitmap members that have a BITD chunk (read off the record by the real record parser: only decides
    whether the movie is also sent to the Lean driver)"""
    from drxtract.cast.cast import parse_cast_file_data
    best = 0
    for s in m["members"]:
        if s is not None and any(cc == "BITD" for cc, _ in s["links"]):
            try:
                cd = parse_cast_file_data(s["cast"])
                best = max(best, abs(int(cd.get("width", 0))) * (abs(int(cd.get("height", 0))) + abs(int(cd.get("h_padding", 0)))))
            except Exception:
                pass
    return best


def real_case(rng, tier="quick"):
    m = gen_real_movie(rng)
    data = encode_movie(m)
    P = len(m["prefix"])
    px = _max_pixels(m)
    big = px > LEAN_PIXEL_CAP[tier]
    spec = dict(mode="real", order=m["order"], prefix_len=P, nslots=len(m["members"]), nscripts=len(m["scripts"] or []), codec=m["codec"],
                sha=hashlib.sha1(data).hexdigest()[:12], movie=json.loads(canon(to_jsonable(m))))
    lines = [("#" if big else "") + f"dir real {m['codec']} {m['order']} {P} {hx(data)}"]
    if px <= SLOW_MODEL_PIXELS:
        # the model of the theorems itself (`parseDirReal`: list-based bitmap model for every size) wherever that is cheap
        lines.append(f"dir realslow {m['codec']} {m['order']} {P} {hx(data)}")
    return Case(kind="real-big" if big else "real", spec=spec, lines=lines, expect=[None] * len(lines))


def fixture_cases(tier):
    """the repo's own movies, whole: tests/files/cast/**/*.DIR and the movies/projector under tests/files/riff (RIFX located the way
    riffxtract does). Model-vs-implementation only (there is no spec object for them); read from $DRX_REPO at run time. Two lines per
    movie: the whole result, and the result part by part with members outside the bitmap model's domain (negative width/height; none
    in the repo today) masked (see real_parts_impl)."""
    out = []
    try:
        from drxtract.riff.riff import find_riff_in_exe
    except Exception:
        return out
    files = sorted((REPO / "tests" / "files" / "cast").rglob("*.DIR")) + sorted(p for p in (REPO / "tests" / "files" / "riff").rglob("*") if p.suffix.lower() in (".dir", ".exe", ".dxr"))
    for p in files:
        try:
            data = p.read_bytes()
            off = find_riff_in_exe(data) if p.suffix.lower() == ".exe" else 0
            order = "<" if data[off:off + 4] == b"XFIR" else ">"
            _, outside, px = _run_real("default", order, off, data)
        except Exception:
            continue
        slow = px > FIXTURE_PIXEL_CAP[tier]
        spec = dict(mode="fixture", file=str(p.relative_to(REPO)), order=order, prefix_len=off, codec="default", max_pixels=px,
                    outside_bitmap_model=len(outside), sha=hashlib.sha1(data).hexdigest()[:12])
        pre = "#" if slow else ""
        lines = []
        if not outside:
            lines.append(pre + f"dir real default {order} {off} {hx(data)}")
        if outside or px <= PARTS_PIXELS:
            lines.append(pre + f"dir realparts default {order} {off} {hx(data)}")
        out.append(Case(kind="repo-fixture-big" if slow else "repo-fixture", spec=spec, lines=lines, expect=[None] * len(lines)))
    return out


def scale_stub_cases(rng, tier):
    """beyond the small bounds (evaluated on the implementation only: the expectation comes from the spec movie): a movie whose real
    resources all have ids above 65 536 (65 600 unlisted empty chunks in front: memory-map indices, key-table ids and cast-table
    references that need a third byte) and one whose real chunks all lie behind a 16 MiB chunk (offsets above 2^24)"""
    out = []
    for what, decoys in (("ids-above-65536", [("decoy", b"XTRA", b"")] * 65600), ("offsets-above-16MiB", [("decoy", b"junk", bytes(2 ** 24 + 2))])):
        if tier == "quick" and what == "offsets-above-16MiB" and False:
            continue
        for _ in range(200):
            m = gen_stub_movie(rng, "valid")
            if sum(1 for x in m["members"] if x and x["links"]) >= 3 and m.get("scripts"):
                break
        m["decoys"] = decoys
        m["decoys_first"] = True
        data = encode_movie(m)
        P = len(m["prefix"])
        exp = canon(to_jsonable(assemble_spec(m, STUBS)))
        m2 = dict(m); m2["decoys"] = [[what, len(decoys)]]
        spec = dict(mode="stub", flavour="valid", order=m["order"], prefix_len=P, nslots=len(m["members"]), nscripts=len(m["scripts"] or []),
                    sha=hashlib.sha1(data).hexdigest()[:12], scale=what, movie=json.loads(canon(to_jsonable(m2))), rebuild="scale_stub_cases")
        out.append(Case(kind="stub-scale-" + what, spec=spec, lines=[f"#dir stub {m['order']} {P} {hx(data)}"], expect=[exp]))
    return out


def cases(rng, tier):
    n = dict(quick=(500, 60, 150, 250), thorough=(12000, 600, 3000, 2500), search=(6000, 300, 1500, 1500))[tier]
    out = [stub_case(rng, "valid") for _ in range(n[0])]
    for fl in ("f28", "f29", "f02"):
        out += [stub_case(rng, fl) for _ in range(n[1] // 3)]
    out += [stub_case(rng, "wild") for _ in range(n[2])]
    out += scale_stub_cases(rng, tier)
    out += last_chunk_cases(rng, tier)
    out += [real_case(rng, tier) for _ in range(n[3])]
    # the repo's own movies, spread over the list (the driver splits the lines into contiguous parts, one process each: the few slow
    # ones — large bitmaps — should not queue up behind each other)
    fx = fixture_cases(tier)
    step = max(1, len(out) // (len(fx) + 1))
    for k, c in enumerate(fx):
        out.insert(min(len(out), (k + 1) * step + k), c)
    return out


# ---------------------------------------------------------------------------------------------- real code

def _spec_movie(case):
    """rebuild the movie spec (bytes) from its JSON form"""
    def back(x):
        if isinstance(x, dict):
            if set(x) == {"__bytes__"}:
                return bytes.fromhex(x["__bytes__"])
            return {k: back(v) for k, v in x.items()}
        if isinstance(x, list):
            return [back(v) for v in x]
        return x
    m = back(case["spec"]["movie"])
    for s in m["members"]:
        if s is not None:
            s["links"] = [tuple(l) for l in s["links"]]
    m["decoys"] = [tuple(d) for d in m.get("decoys", [])]
    return m


def _setenc(codec):
    if codec == "default":
        os.environ.pop("DRX_ENCODING", None)
    else:
        os.environ["DRX_ENCODING"] = codec


def _run_real(codec, order, P, data):
    """the REAL parse_dir_file_data under DRX_ENCODING=codec -> (DirectorFile or None when it raised, ids of the member dicts whose
    bitmap record leaves the domain of the bitmap MODEL, largest pixel count handed to bitd2bmp). bitd2bmp is wrapped by an
    observer and otherwise called unchanged. Outside the model's domain = negative width / height with a depth that has a decoder
    (lean/Drx/Bitd.lean `Request` has natural-number width and height, integer offsets; Drx/DirReal.lean `bitdInDomain`)."""
    import drxtract.dir.dir as dd
    from drxtract.bitd.bitd2bmp import DECODERS
    real_bitd = dd.bitd2bmp
    outside, px = set(), [0]

    def spy(castData, clutData, fdata):
        try:
            if castData["depth"] in DECODERS:
                if castData["width"] < 0 or castData["height"] < 0:
                    outside.add(id(castData))
                px[0] = max(px[0], abs(castData["width"]) * (abs(castData["height"]) + abs(castData["h_padding"])))
        except Exception:
            pass
        return real_bitd(castData, clutData, fdata)

    old = os.environ.get("DRX_ENCODING")
    _setenc(codec)
    dd.bitd2bmp = spy
    try:
        try:
            df = dd.parse_dir_file_data(order, P, data)
        except Exception as e:
            df = None
    finally:
        dd.bitd2bmp = real_bitd
        if old is None:
            os.environ.pop("DRX_ENCODING", None)
        else:
            os.environ["DRX_ENCODING"] = old
    return df, outside, px[0]


def real_impl(codec, order, P, data):
    """line `dir real`: the whole result, canonicalised like lean/Drx/DirReal.lean renders the model's result; None (= not comparable)
    when some bitmap record is outside the bitmap model's domain"""
    df, outside, _ = _run_real(codec, order, P, data)
    if outside:
        return None
    try:
        return canon("error") if df is None else canon(real_result_json(df))
    except Exception:
        return canon("error")


def real_parts_impl(codec, order, P, data):
    """line `dir realparts`: every part of the result on its own; a member outside the bitmap model's domain is masked as "error" on
    both sides, so that the rest of such a movie is still compared (no repo movie needs it since negative offsets are modelled).
    None when the real call raised (no parts to look at)."""
    df, outside, _ = _run_real(codec, order, P, data)
    if df is None:
        return None
    r = real_result_json(df)
    r["cast"] = ["error" if id(e) in outside else j for e, j in zip(df.cast, r["cast"])]
    return canon(r)


def impl(case):
    import drxtract.dir.dir as dd
    t = case["lines"][0].lstrip("#").split()
    if t[1] in ("real", "realslow", "realparts"):
        out, memo = [], {}
        for line in case["lines"]:
            t = line.lstrip("#").split()
            f = real_parts_impl if t[1] == "realparts" else real_impl
            key = (f.__name__,) + tuple(t[2:6])
            if key not in memo:
                memo[key] = f(t[2], t[3], int(t[4]), bytes.fromhex("" if t[5] == "-" else t[5]))
            out.append(memo[key])
        return out
    order, P, data = t[2], int(t[3]), bytes.fromhex("" if t[4] == "-" else t[4])
    if case["spec"]["mode"] == "stub":
        saved = {k: getattr(dd, k) for k in STUBS}
        try:
            for k, f in STUBS.items():
                setattr(dd, k, f)
            try:
                return [canon(result_json(dd.parse_dir_file_data(order, P, data)))]
            except Exception:
                return [canon("error")]
        finally:
            for k, f in saved.items():
                setattr(dd, k, f)
    return [canon("bad-op")]


class _Obj:
    def __init__(self, d):
        self.__dict__.update(d)


def oracle(case, io):
    """real mode: the assembled result must equal the composition of the real individual decoders (declarative assembler)"""
    if case["spec"]["mode"] != "real" or io[0] is None:
        return None
    m = _spec_movie(case)
    old = os.environ.get("DRX_ENCODING")
    _setenc(m.get("codec", "default"))
    try:
        exp = canon(real_result_json(_Obj(assemble_spec(m, real_decoders()))))
    except Exception as e:
        return None   # an individual decoder rejects one of the chunks in isolation: nothing to compose
    finally:
        if old is None:
            os.environ.pop("DRX_ENCODING", None)
        else:
            os.environ["DRX_ENCODING"] = old
    if io[0] != exp:
        return "whole-movie result differs from composing the individual decoders over the designated chunks: expected " + exp[:600] + " got " + io[0][:600]
    return None


def nontrivial(case, io):
    return any(x is not None and x != '"error"' and '"cast":[]' not in x for x in io)


# ---------------------------------------------------------------------------------------------- known findings

def _all_error(got):
    """the observable "error", or (oracle failure: the list of the case's observables) every line "error"""
    if got == '"error"':
        return True
    try:
        l = json.loads(got)
    except Exception:
        return False
    return isinstance(l, list) and len(l) > 0 and all(x == '"error"' for x in l)


def _m_f28(case, f, p):
    """F28: some bitmap member refers (palette id p > 0) to a palette member in the same or a LATER cast slot, and the call raised"""
    # (an oracle failure carries the list of the case's observables, a stage-D expectation failure the observable itself)
    if not _all_error(f.got) or case["spec"].get("mode") not in ("stub", "real"):
        return False
    m = _spec_movie(case)
    for i, s in enumerate(m["members"]):
        if s is None or not any(cc == "BITD" for cc, _ in s["links"]):
            continue
        if case["spec"]["mode"] == "stub":
            if not (len(s["cast"]) >= 3 and s["cast"][0] == 1):
                continue
            pid = struct.unpack(">h", s["cast"][1:3])[0]
        else:
            # real mode: the palette number as the real record parser reports it (a numeric 'palette' entry)
            try:
                from drxtract.cast.cast import parse_cast_file_data
                pv = str(parse_cast_file_data(s["cast"]).get("palette", 0))
                pid = int(pv) if pv.lstrip("-").isdigit() else 0
            except Exception:
                continue
        if pid > 0 and pid - 1 >= i and pid - 1 < len(m["members"]):
            return True
    return False


def _m_f29(case, f, p):
    """F29: a continuation script is listed in Lctx before its base script, and the call raised"""
    if f.got != '"error"' or case["spec"].get("mode") != "stub":
        return False
    m = _spec_movie(case)
    seen = set()
    for s in m.get("scripts") or []:
        if s is None or len(s) < 4:
            continue
        n, c = struct.unpack(">hh", s[:4])
        if c < 0:
            seen.add(n)
        elif c not in seen:
            return True
    return False


def _m_f02(case, f, p):
    """F02: the result is exactly what the spec gives when the link of the LAST key-table entry is removed (entry never read);
    when the dropped link is a palette (CLUT) that a bitmap refers to, the spec without it has no palette to hand over and the call raises"""
    if case["spec"].get("mode") != "stub":
        return False
    m = _spec_movie(case)
    info = {}
    encode_movie(m, info=info)
    lk = info.get("last_key_link")
    if not lk:
        return False
    i, j = lk
    m["members"][i]["links"] = [l for k, l in enumerate(m["members"][i]["links"]) if k != j]
    try:
        return canon(to_jsonable(assemble_spec(m, STUBS))) == f.got
    except KeyError:
        return f.got == '"error"'
    except Exception:
        return False


MATCHERS = {
    "c05_palette_member_in_later_slot": _m_f28,
    "c05_continuation_before_base": _m_f29,
    "c05_last_key_entry_dropped": _m_f02,
}
